"""Configuration lattice (DESIGN §3.2), read from /repo/Rules at run time."""
import os
RULES = os.environ.get("VERIF_RULES") or "/repo/Rules"
# languages whose locale writes decimals with '.', per the library's own table (prefs.rs); everything else uses ','
PERIOD_LANGS = {"en", "zh"}


def languages():
    """shipped language tags (the test directory zz is skipped by build.rs and is not shipped)"""
    out = []
    base = os.path.join(RULES, "Languages")
    for lang in sorted(os.listdir(base)):
        d = os.path.join(base, lang)
        if lang == "zz" or not os.path.isdir(d):
            continue
        if os.path.exists(os.path.join(d, "definitions.yaml")):
            out.append(lang)
        for sub in sorted(os.listdir(d)):
            sd = os.path.join(d, sub)
            if os.path.isdir(sd) and sub != "SharedRules" and any(f.endswith(".yaml") for f in os.listdir(sd)):
                out.append(f"{lang}-{sub}")
    return out


def styles(lang):
    parts = lang.split("-")
    found = set()
    for d in (os.path.join(RULES, "Languages", *parts), os.path.join(RULES, "Languages", parts[0])):
        if os.path.isdir(d):
            for f in os.listdir(d):
                if f.endswith("_Rules.yaml"):
                    found.add(f[:-len("_Rules.yaml")])
    return sorted(found)


def mark(lang):
    return "." if lang.split("-")[0] in PERIOD_LANGS else ","


VERBOSITIES = ["Terse", "Medium", "Verbose"]


def braille_codes():
    base = os.path.join(RULES, "Braille")
    return sorted(d for d in os.listdir(base) if os.path.isdir(os.path.join(base, d)))


def speech_configs():
    for lang in languages():
        for st in styles(lang):
            for v in VERBOSITIES:
                yield lang, st, v
