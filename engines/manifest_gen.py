#!/usr/bin/env python3
"""Regenerates /verif/MANIFEST.json from the table below (one entry per property that has a check).
Properties without an entry are listed under not_applicable with the reason given in PENDING."""
import json, os
VERIF = os.path.dirname(os.path.dirname(os.path.abspath(__file__)))

CHECKS = {
 "C18": dict(level="exploration", technique="exhaustive enumeration of the complete (mathvariant value x table character x token kind) product against the Unicode Character Database",
             text="Complete enumeration of the finite mapping domain through the public API (set_mathml), every image compared with the UCD name/decomposition tables; injectivity checked per style. Exhaustive, so this is a decision for the table, not a sample.",
             note="Trusts python's unicodedata as the statement of what Unicode assigns; tokens are tested as the only child of <math> and in 4-character windows.", design="§4 C18"),
 "C17": dict(level="exploration", technique="exhaustive enumeration of the entity table and of all single/pairwise surface rewrites of a bounded term corpus, differential oracle against the plain spelling",
             text="Every one of the 2125 entity names x 4 contexts, and every single and pairwise combination of 13 XML surface rewrites over all spine terms of the grammar to depth 2, executed against the real library; canonical MathML, speech and braille must equal those of the plain spelling. Exhaustive over the entity table; bounded-exhaustive over rewrites.",
             note="Expected characters come from python html.entities (HTML5), accepting the W3C-2007 leading blank before a combining mark; generated id prefixes are normalised.", design="§4 C17"),
 "C16": dict(level="exploration", technique="exhaustive enumeration of the locale number grammar x token splittings x contexts x locales, differential oracle against the single-token spelling plus a reference number grammar",
             text="All numbers of the bounded locale grammar, every separator-as-own-token spelling (each as mo or mtext), 11 contexts, 4 locales, plus 25 near-miss sequences; canonical MathML (thorough: speech and braille) of the split spelling must equal the single-<mn> spelling; merged tokens must satisfy the harness's own number grammar.",
             note="Trailing-mark numbers at the very end of an expression are excluded (indistinguishable from sentence punctuation, and the statement lists both readings); comma numbers directly inside fences get only the negative check, as the statement says.", design="§4 C16"),
 "C19": dict(level="exploration", technique="exhaustive enumeration of all intent strings up to a token-length bound over a 15-token alphabet x hosts x recovery modes x mode-switch orders, against a reference recognizer of the intent grammar",
             text="All strings of <=3 (quick) / <=4 (thorough) tokens over the full alphabet and longer ones over core sub-alphabets, nesting ladders and edge strings, on three hosts; each string drives a 17-call history (IgnoreIntent, Error, both switching orders on one stored expression, repeated calls, braille, stored-tree read-back). A harness-side recognizer of the quoted grammar classifies strings; illegal ones must be ignored / reported, core-legal ones honoured.",
             note="Strings the grammar and the implementation may legitimately disagree on (f(), :p(args), property-only arguments, repeated references) are classed undetermined and only required not to fail in IgnoreIntent mode and not to panic.", design="§4 C19"),
 "C01": dict(level="exploration", technique="deviation-bounded exhaustive enumeration of MathML terms (grammar G) x separator locales against a visible-text extractor applied to input and output",
             text="All spine terms of a 39-construct grammar to depth 2, all sibling pairs, ~90 normalisation-trigger terms, and every single deviation (degenerate atoms, delete, duplicate, wrappers, wrap-all, insertions, attributes) at every node (quick: of depth-1 terms; thorough: of depth-2 terms plus deviation pairs on depth-1 terms), in 3 locales: the normalised visible character sequence of the returned MathML must equal that of the input.",
             note="Normalisation classes (bar, prime, dots, dashes, math alphanumerics, WIRIS fences) are many-to-one, so a change that stays inside one class is not seen. Inputs that panic are C08's. MathCAT's own marker attribute data-changed on author tokens and mprescripts outside mmultiscripts are outside the space (not well-formed author MathML).", design="§4 C01"),
 "C02": dict(level="exploration", technique="deviation-bounded exhaustive enumeration of MathML terms (grammar G) x separator locales against structural invariants on the parsed result",
             text="Same enumeration as C01; for every accepted input the returned string must parse, have a math root with one child, respect all element arities and multiscript pairing, contain no empty token, no short unintended mrow and none of the wrappers canonicalization removes; planted special characters must survive the escape round trip; get_navigation_mathml at the root must return the same tree.",
             note="Parsing is done with python's expat-based ElementTree, independent of the library's sxd-document.", design="§4 C02"),
 "C09": dict(level="exploration", technique="exhaustive enumeration of author-id plantings over the term grammar, and of all navigation/bookmark/braille-routing query sequences up to length 2 per expression",
             text="Every spine term to depth 2 and every trigger term x {no ids, one author id at each element in turn, all elements, duplicates, generated-looking id}: all result elements have ids, no id is duplicated beyond the input, a planted id stays on the element carrying the token's text. Per expression, every navigation sequence of length <=2 over 21 commands, SSML and SAPI5 bookmarks, node-from-braille for every cell and cursor routing with offsets: every id handed out is an id of the returned MathML.",
             note="Ids on mrow/wrapper elements and on non-rendered content carry no claim; where two author ids compete for one merged element only one can survive.", design="§4 C09"),
 "C04": dict(level="exploration", technique="exhaustive enumeration of planted-literal terms of the grammar x the complete language x style x verbosity lattice; oracle counts literal occurrences in speech",
             text="Every spine term to depth 2 with a distinct decimal literal at every operand slot in all 45 shipped speech configurations, depth 3 over a 12-construct core (quick: English; thorough: all languages) and depth 4 over a 6-construct core (thorough): every literal must occur in the speech at least as often as in the expression. Misses are classed by construct.slot and by whether the slot is already silent when the construct stands alone.",
             note="'At least' rather than 'exactly' (ClearSpeak repeats interval end points). Identifiers are not checked textually. Speech errors are left to C05/C15.", design="§4 C04"),
 "C06": dict(level="exploration", technique="exhaustive enumeration of planted-literal terms x braille codes x code preferences; oracle looks for each literal's cell run",
             text="The planted-literal corpus of C04 in the six codes the statement names and their code preferences: each literal's digit/decimal cell run (verbatim text for LaTeX/ASCIIMath) must occur contiguously at least as often as the literal occurs. The run is taken from the bare <mn> in the same configuration and validated against hard-coded digit tables.",
             note="CMU/Vietnam lower-cell digits in simple numeric fractions are accepted. Swedish and ASCIIMath-fi are not named by the statement and are left to C07/C15.", design="§4 C06"),
 "C05": dict(level="exploration", technique="exhaustive enumeration of terms, single deviations and complete per-language Unicode tables x the language/style/verbosity lattice; oracle scans every returned string for internal markers",
             text="All spine terms to depth 2 and the trigger terms in all 45 speech configurations, single degenerate/invisible-operator deviations of depth-1 terms in every language, one token context for every key of every language's unicode.yaml and unicode-full.yaml (18.8k characters) and for characters in no table, plus capital-letter/override/impairment preference sets: speech and overview must be Ok, non-empty iff there is visible content, and free of private-use characters, [[ ]], raw invisible operators and markup; four navigation reads are scanned too.",
             note="Input alphabets contain no private-use characters. Navigation reads are only scanned for markers.", design="§4 C05"),
 "C07": dict(level="exploration", technique="exhaustive enumeration of each code's complete Unicode tables x token contexts, and of terms x highlight styles x node ids followed by position queries; oracle checks the output alphabet",
             text="Every key (every member of every range) of the six codes' unicode.yaml/unicode-full.yaml (42k character cases) and all mathvariants x token classes; terms of the grammar with author ids x 4 highlight styles x {no node, unknown node, root, each author id}, then node-from-braille in and out of range and the requests repeated: cell codes emit only U+2800-28FF and no dots 7-8 unless a known node is highlighted; text codes emit printable text without internal markers; non-empty iff visible content.",
             note="Pass-through of characters a code does not define and expressions using elements the code's rule file has no rule for are outside the guarantee (both decided from the rule files at run time). Cells with dots 7-8 that the rule file itself writes as content (Nemeth line separator) are not highlight.", design="§4 C07"),
 "C13": dict(level="exploration", technique="exhaustive enumeration of terms x languages x engines x preference sets (each alone, all, thorough: every pair); tokenizer/stack checker plus differential word comparison against engine none",
             text="Terms of the grammar, trigger terms and capital/chemistry/long-row terms under SSML and SAPI5 in en/es/sv (thorough: all 8 languages) with every rate/pitch/volume/pause/math-rate/capital/beep/bookmark preference varied alone, all together and (thorough) pairwise: tags must be of the engine's vocabulary, properly nested and closed, with valid attribute syntax and numeric values; tag-stripped words must equal the engine-free words of the same session; bookmarks must name ids of the expression.",
             note="Word comparison ignores white space and pause punctuation and reads 'eigh' as the letter a.", design="§4 C13"),
 "C15": dict(level="exploration", technique="exhaustive enumeration of the shipped configuration lattice x a term corpus, in fresh sessions and in single sessions walking through all configurations; fired-rule hook for coverage",
             text="All 45 language x style x verbosity configurations found under Rules/ with the 8 braille codes rotated through (each code also under English), 7 fallback tags: every preference accepted; speech, overview, braille and a 5-command navigation walk Ok on the corpus; regional/unknown tags equal the language they fall back to; three sessions walking through all configurations reproduce the fresh-session results. Evidence lists rules fired / defined per rule file.",
             note="Languages/zz is a test fixture and not shipped. Fallback comparison pins the decimal mark because the language tag also selects the locale.", design="§4 C15", engine="E1+E2"),
 "C10": dict(level="model_checking", technique="exhaustive enumeration of API call histories (all histories up to a depth from the initial state, plus de Bruijn sessions covering every call window after a long history) against a switch-free fresh-session reference model; exhaustive enumeration of thread interleavings at API-call granularity under a controlled scheduler",
             text="25-call alphabet chosen to collide on every cache (14 preference writes, 4 expressions, 7 observations). Quick: all histories of depth <=2, depth 3 starting with set_mathml, three depth-4 shapes (configure/set/switch/observe, configure/set/observe/observe, set/observe/switch/observe) in fresh sessions, and an order-3 de Bruijn sequence run as long sessions; thorough: all depth-4 histories ending in an observation and an order-4 de Bruijn sequence. Every observation is compared with a fresh session that sets the current preference values before anything loads. Schedules: all interleavings of 2-thread x 4-step and 3-thread x 3-step script tuples (thorough: longer), each thread compared with its solo run.",
             note="API-call granularity is justified by a census of process-wide mutable state in the crate (none; re-counted on every run). A mismatch is filed under 'stale canonicalization' only when the canonical MathML of the expression really differs between the preferences at set_mathml time and now (decided by two reference sessions).", design="§4 C10", engine="E2+E3"),
 "C11": dict(level="model_checking", technique="explicit-state breadth-first search over the real navigation transition function with exact state hashing (state read and restored through a cfg-guarded hook, restore validated against replay), invariants checked on every transition",
             text="State = complete NavigationState (position stack, command stack, place markers, mode, overview flag) + NavMode/Overview preferences + expression index; transitions = 36 navigation commands, set_mathml (other/same expression), set_navigation_node (4 positions, unknown id). Quick: full alphabet to depth 3 on 3 expression/mode pairs and a 9-command core alphabet to depth 6/5; thorough: full alphabet depth 3 on 5 expressions x 6 mode/overview/auto-zoom configurations, depth 4 on two, core alphabet to depth 7. Invariants I1-I6 of DESIGN §4 C11 on every transition; every state of the first levels is re-derived by replaying the command history through the public API in a fresh session and must agree with the restored state (otherwise the run aborts).",
             note="Offsets inside a node are not compared (the statement speaks of nodes). A command that returns an error may move (only I1/I6 are demanded of it).", design="§4 C11", engine="E2"),
 "C12": dict(level="model_checking", technique="exhaustive enumeration of set_preference/get_preference histories (every name x value, every same-name value pair, all pairs/triples over a core, each accepted setting followed by a call series) in fresh sessions against a last-writer-wins reference model with a kind table",
             text="Kind table (boolean/number/string) read from prefs.yaml and the defaults in prefs.rs; the model says accept / reject / either for each write and what it must read back as. After every history the complete preference snapshot is compared with the model: accepted writes read back normalised, rejected writes are errors that change nothing, no other preference moves, and a series of set_mathml / speech / braille / navigation / cursor-routing calls (in and out of range) leaves every preference as set. Independence: speech-only, braille-only and navigation preferences do not change the other outputs.",
             note="A string preference accepts any string; non-member strings for file-selecting preferences may be accepted or refused. Language/DecimalSeparator legitimately rewrite the derived separator preferences.", design="§4 C12", engine="E2"),
 "C20": dict(level="model_checking", technique="exhaustive enumeration of query histories per (expression, braille code, highlight style): every node id, every cell index incl. out-of-range, after navigation commands, with state snapshots after every query",
             text="One long history per (expression, code, style): get_braille for each node id / unknown id / '', node-from-braille for cells 0..35, 200, 9999, usize::MAX, set_navigation_node + get_braille_position + get_braille per id, and the queries again after 6 navigation commands. After every query the highlight preference and navigation position are re-read (every 6th also speech, braille, overview) and must be unchanged; positions must lie inside the braille; returned ids must belong to the expression; style Off / unknown id must give exactly the plain braille. Includes an expression whose braille fails (purity on the error path).",
             note="Highlighted braille that differs from the plain braille in more than dots 7-8 is counted, not judged (the statement makes no claim).", design="§4 C20", engine="E2"),
 "C14": dict(level="fault_enumeration", technique="exhaustive enumeration of (rule file, fault kind, fault position, fault-before/after-load order) on a private Rules copy with a harness clock, followed by repair and differential comparison with the fault-free baseline",
             text="Every rule file reachable from three configurations x 10-15 fault kinds (deleted, empty, scalar, map, not YAML, truncation at entry boundaries and mid-entry, uncompilable XPath, unknown key, wrongly typed definition/character entry, prefs of the wrong shape) x {fault before first load, after load}, plus 7 directory-level histories per configuration. Under a fault each call must return its pre-fault result, an error naming the file, or (well-formed shorter file / documented fallback) any Ok; nothing may panic; after restoring the file with a newer time stamp, CheckRuleFiles=All and re-pointing the rules directory every output must equal the baseline.",
             note="File times come from a harness counter via File::set_modified. After an initialisation that already failed naming the file, and after a refused set_mathml, follow-on errors need not name the file again.", design="§4 C14", engine="E4"),
 "C08": dict(level="exploration", technique="exhaustive enumeration of bounded input/argument/history families against the real library in supervised child processes (panic hook, exit status, watchdog) with a fresh-session recovery oracle",
             text="Families: every corpus document truncated at every byte; every element renamed to each of 47 element names; the C01 deviation space incl. the library's own marker attributes; 34 token texts x 5 kinds x 9 hosts x 4 mathvariants; nesting ladders and wide rows; all navigation commands, key codes x modifiers, set_navigation_node ids x offsets (incl. usize::MAX), node-from-braille positions; all call sequences up to length 3 (thorough 4) over a 26-class alphabet in fresh sessions; every preference name x 19 values and same-name pairs; nested intent attributes under both recovery settings; 9 braille code names. Every call must return Ok/Err (panic hook + catch_unwind, child exit status, 15 s watchdog); after an error a valid expression must give the fresh-session results. Panic keys are (API entry, source text of the panicking line), so a new site is a new key.",
             note="'Fails to terminate' is checked as 'exceeds the watchdog'. Overflow checks are on, so arithmetic wraps surface as panics.", design="§4 C08", engine="E1+E2"),
}
PENDING = {}

def main():
    props = [json.loads(l)["id"] for l in open(os.path.join(VERIF, "properties.jsonl"))]
    checks = []
    for pid in props:
        c = CHECKS.get(pid)
        if not c: continue
        checks.append({
            "property_id": pid,
            "quick_cmd": f"bin/check {pid} quick",
            "thorough_cmd": f"bin/check {pid} thorough",
            "evidence_file": f"/verif/evidence/{pid}.json",
            "replay_cmd_template": "bin/replay {path}",
            "engine": c.get("engine", "E1"),
            "level_claimed": {"category": c["level"], "text": c["text"], "design_ref": c["design"]},
            "level_note": c["note"],
            "technique": c["technique"],
        })
    na = [{"property_id": p, "reason": PENDING.get(p, "check not built yet in this session (see DESIGN §11 build order); not claimed until its check runs clean on the unchanged tree")}
          for p in props if p not in CHECKS]
    man = {
        "version": 1,
        "setup_cmd": "cd /verif/mc && CARGO_NET_OFFLINE=true cargo build --release --offline",
        "hooks": {
            "guard": "mathcat_verif",
            "enable": "rustc --cfg mathcat_verif, set by /verif/mc/.cargo/config.toml ([build] rustflags) when the executor crate path-depends on /repo",
            "baseline_off_cmd": "cd /repo && cargo test --workspace --no-fail-fast --offline",
            "source_commits": ["9622a5c"],
            "add_only": True,
        },
        "engines": [
            {"name": "mc", "path": "/verif/mc", "serves_properties": props, "kind_free_text": "Rust executor linked against /repo: runs op lists against the public API in fresh or continuing sessions (thread = session), controlled API-granularity scheduler, fault ops with harness clock"},
            {"name": "engines", "path": "/verif/engines", "serves_properties": props, "kind_free_text": "Python enumerators (term grammar, histories, schedules, faults), reference oracles, evidence writer"},
        ],
        "checks": checks,
        "not_applicable": na,
        "notes": "All checks: bin/check <ID> <quick|thorough>; exit 0 held / 1 VIOLATION / 2 machinery failure. known_findings.json lists recorded genuine defects.",
    }
    json.dump(man, open(os.path.join(VERIF, "MANIFEST.json"), "w"), indent=1, ensure_ascii=False)
    print("MANIFEST.json:", len(checks), "checks,", len(na), "not yet claimed")

if __name__ == "__main__":
    main()
