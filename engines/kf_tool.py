#!/usr/bin/env python3
"""Maintenance tool (never used by a check): kf_tool.py add <PROP> [regex]  — append the violations of
the last run (replays/<PROP>/*.json) whose key matches regex to known_findings.json after a human
triaged them as genuine defects.  kf_tool.py fixed <PROP> <commit> <what>."""
import json, os, re, sys, glob
VERIF = os.path.dirname(os.path.dirname(os.path.abspath(__file__)))
KF = os.path.join(VERIF, "known_findings.json")
data = json.load(open(KF, encoding="utf-8"))
cmd = sys.argv[1]
if cmd == "add":
    prop = sys.argv[2]; rx = re.compile(sys.argv[3] if len(sys.argv) > 3 else ".")
    have = {f["key"] for f in data["findings"]}
    n = 0
    for p in sorted(glob.glob(os.path.join(VERIF, "replays", prop, "*.json"))):
        r = json.load(open(p, encoding="utf-8"))
        if r["key"] in have or not rx.search(r["key"]): continue
        data["findings"].append({"property": prop, "key": r["key"], "what": r["what"][:300], "witness": r["replay"]})
        n += 1
    print("added", n)
elif cmd == "fixed":
    data["fixed"].append({"property": sys.argv[2], "commit": sys.argv[3], "what": sys.argv[4]})
    print("fixed: property=%s %s %s" % tuple(sys.argv[2:5]))
elif cmd == "drop":
    prop = sys.argv[2]; rx = re.compile(sys.argv[3])
    before = len(data["findings"])
    data["findings"] = [f for f in data["findings"] if not (f["property"] == prop and rx.search(f["key"]))]
    print("dropped", before - len(data["findings"]))
with open(KF, "w", encoding="utf-8") as f:
    f.write("{\n \"_comment\": " + json.dumps(data["_comment"], ensure_ascii=False) + ",\n \"findings\": [\n")
    f.write(",\n".join("  " + json.dumps(x, ensure_ascii=False) for x in data["findings"]))
    f.write("\n ],\n \"fixed\": [\n")
    f.write(",\n".join("  " + json.dumps(x, ensure_ascii=False) for x in data["fixed"]))
    f.write("\n ]\n}\n")
