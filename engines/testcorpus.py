"""MathML literals of the repository's own tests (tests/**/*.rs and the test modules in src/*.rs): a corpus written by the maintainers
to make each rule of the rule files fire.  The expected outputs of those tests are not used - only the inputs, as one more family of
expressions for checks whose oracle does not need a hand-written expectation."""
import glob, os, re

REPO = os.environ.get("VERIF_REPO", "/repo")
_CACHE = {}


def expressions(which="tests"):
    """-> sorted list of distinct '<math ...>...</math>' strings found in Rust string literals"""
    if which in _CACHE:
        return _CACHE[which]
    files = sorted(glob.glob(os.path.join(REPO, "tests", "**", "*.rs"), recursive=True))
    if which == "all":
        files += sorted(glob.glob(os.path.join(REPO, "src", "*.rs")))
    out = set()
    for f in files:
        try:
            s = open(f, encoding="utf-8").read()
        except Exception:
            continue
        for m in re.finditer(r"<math\b.*?</math>", s, re.S):
            x = m.group(0)
            if "{}" in x or "{:" in x:
                continue                      # a format template, not an expression
            x = x.replace('\\"', '"').replace("\\n", "\n").replace("\\t", "\t")
            x = re.sub(r"\\\n\s*", "", x)     # Rust line continuation inside a "..." literal
            if "\\u{" in x:
                x = re.sub(r"\\u\{([0-9a-fA-F]+)\}", lambda k: chr(int(k.group(1), 16)), x)
            if "\\" in x:
                continue
            out.add(x)
    _CACHE[which] = sorted(out)
    return _CACHE[which]


if __name__ == "__main__":
    e = expressions()
    print(len(e), "expressions from tests/;", len(expressions("all")), "with src/")
