"""Term grammar G (DESIGN §3.1): constructs with numbered operand slots, atoms, spine enumeration,
deviation operators, XML printer, and an ElementTree -> term reader for the library's output."""
import itertools
import xml.etree.ElementTree as ET
from xml.sax.saxutils import escape, quoteattr


class T:
    """A MathML element: tag, attrs (dict, insertion ordered), kids (list of T) or text (str)."""
    __slots__ = ("tag", "attrs", "kids", "text")

    def __init__(self, tag, kids=None, text=None, **attrs):
        self.tag = tag
        self.attrs = dict(attrs)
        self.kids = kids if kids is not None else []
        self.text = text

    def copy(self):
        t = T(self.tag, [k.copy() for k in self.kids], self.text)
        t.attrs = dict(self.attrs)
        return t

    def xml(self):
        a = "".join(f" {k}={quoteattr(v)}" for k, v in self.attrs.items())
        if self.kids:
            return f"<{self.tag}{a}>" + "".join(k.xml() for k in self.kids) + f"</{self.tag}>"
        if self.text is not None:
            return f"<{self.tag}{a}>{escape(self.text)}</{self.tag}>"
        return f"<{self.tag}{a}/>"

    def __repr__(self):
        return self.xml()

    def walk(self, path=()):
        yield path, self
        for i, k in enumerate(self.kids):
            yield from k.walk(path + (i,))

    def at(self, path):
        t = self
        for i in path:
            t = t.kids[i]
        return t


LEAVES = ("mi", "mn", "mo", "mtext", "ms")


def mi(s, **a): return T("mi", text=s, **a)
def mn(s, **a): return T("mn", text=s, **a)
def mo(s, **a): return T("mo", text=s, **a)
def mtext(s, **a): return T("mtext", text=s, **a)
def row(*k, **a): return T("mrow", list(k), **a)
def el(tag, *k, **a): return T(tag, list(k), **a)
def math(t): return T("math", [t])


def doc(t):
    """Full document string for a term (wrapped in <math>)."""
    return "<math>" + t.xml() + "</math>"


# ---------------------------------------------------------------------------------------------
# constructs:  name -> (slot kinds, builder).  Slot kind: 'any' (number or identifier or composite),
# 'id' (identifier-like only; a planted number there would change the meaning of the construct).

def _tbl(*rows):
    return el("mtable", *[el("mtr", *[el("mtd", c) for c in r]) for r in rows])


CONSTRUCTS = [
    ("add",      ["any", "any"], lambda a, b: row(a, mo("+"), b)),
    ("minus",    ["any", "any"], lambda a, b: row(a, mo("−"), b)),
    ("eq",       ["any", "any"], lambda a, b: row(a, mo("="), b)),
    ("times",    ["any", "any"], lambda a, b: row(a, mo("×"), b)),
    ("juxt",     ["any", "id"],  lambda a, b: row(a, b)),
    ("paren",    ["any"],        lambda a: row(mo("("), a, mo(")"))),
    ("func",     ["any"],        lambda a: row(mi("f"), mo("("), a, mo(")"))),
    ("sin",      ["any"],        lambda a: row(mi("sin"), a)),
    ("abs",      ["any"],        lambda a: row(mo("|"), a, mo("|"))),
    ("pair",     ["any", "any"], lambda a, b: row(mo("("), a, mo(","), b, mo(")"))),
    ("fact",     ["any"],        lambda a: row(a, mo("!"))),
    ("neg",      ["any"],        lambda a: row(mo("−"), a)),
    ("frac",     ["any", "any"], lambda a, b: el("mfrac", a, b)),
    ("sqrt",     ["any"],        lambda a: el("msqrt", a)),
    ("sqrtn",    ["any", "any"], lambda a, b: el("msqrt", a, mo("+"), b)),
    ("root",     ["any", "any"], lambda a, b: el("mroot", a, b)),
    ("sup",      ["any", "any"], lambda a, b: el("msup", a, b)),
    ("sub",      ["any", "any"], lambda a, b: el("msub", a, b)),
    ("subsup",   ["any", "any", "any"], lambda a, b, c: el("msubsup", a, b, c)),
    ("under",    ["any", "any"], lambda a, b: el("munder", a, b)),
    ("over",     ["any", "any"], lambda a, b: el("mover", a, b)),
    ("bar",      ["any"],        lambda a: el("mover", a, mo("¯"), accent="true")),
    ("sum",      ["any", "any", "any"], lambda a, b, c: row(el("munderover", mo("∑"), a, b), c)),
    ("mpost",    ["any", "any", "any"], lambda a, b, c: el("mmultiscripts", a, b, c)),
    ("mpre",     ["any", "any", "any"], lambda a, b, c: el("mmultiscripts", a, T("mprescripts"), b, c)),
    ("matrix",   ["any", "any", "any", "any"], lambda a, b, c, d: row(mo("("), _tbl([a, b], [c, d]), mo(")"))),
    ("column",   ["any", "any"], lambda a, b: _tbl([a], [b])),
    ("labeled",  ["any", "any"], lambda a, b: el("mtable", el("mlabeledtr", el("mtd", mtext("(1)")), el("mtd", a), el("mtd", b)))),
    ("fenced",   ["any", "any"], lambda a, b: el("mfenced", a, b)),
    ("fencedx",  ["any", "any"], lambda a, b: el("mfenced", a, b, open="[", close="]", separators=";")),
    ("enclose",  ["any"],        lambda a: el("menclose", a, notation="box")),
    ("style",    ["any"],        lambda a: el("mstyle", a, displaystyle="true")),
    ("padded",   ["any"],        lambda a: el("mpadded", a, width="+1em")),
    ("sem",      ["any"],        lambda a: el("semantics", a, T("annotation", text="a", encoding="text/plain"))),
    ("text",     ["any", "any"], lambda a, b: row(a, mtext("and"), b)),
    ("integral", ["any", "any", "any"], lambda a, b, c: row(el("msubsup", mo("∫"), a, b), c, mi("d"), mi("x"))),
    ("limit",    ["id", "any", "any"], lambda a, b, c: row(el("munder", mi("lim"), row(a, mo("→"), b)), c)),
    ("binom",    ["any", "any"], lambda a, b: row(mo("("), el("mfrac", a, b, linethickness="0"), mo(")"))),
    ("log",      ["any", "any"], lambda a, b: row(el("msub", mi("log"), a), b)),
]
# constructs used only by the planted-literal checks (C04, C06): operand positions that the grammar above reaches only with a large
# operator or a single operator - a limit-style element around an ordinary base, and chains of three operands with division-like operators
EXTRA_CONSTRUCTS = [
    ("underover", ["any", "any", "any"], lambda a, b, c: el("munderover", a, b, c)),
    ("div3",      ["any", "any", "any"], lambda a, b, c: row(a, mo("/"), b, mo("/"), c)),
    ("ratio3",    ["any", "any", "any"], lambda a, b, c: row(a, mo(":"), b, mo(":"), c)),
    ("divide3",   ["any", "any", "any"], lambda a, b, c: row(a, mo("\u00f7"), b, mo("\u00f7"), c)),
    ("times3",    ["any", "any", "any"], lambda a, b, c: row(a, mo("\u22c5"), b, mo("\u22c5"), c)),
    ("list3",     ["any", "any", "any"], lambda a, b, c: row(a, mo(","), b, mo(","), c)),
]
CONSTRUCT = {c[0]: c for c in CONSTRUCTS + EXTRA_CONSTRUCTS}
ALL_NAMES = [c[0] for c in CONSTRUCTS + EXTRA_CONSTRUCTS]
CORE6 = ["frac", "sqrt", "sup", "sum", "times", "paren"]


class Filler:
    """Hands out atoms for the operand slots of a term.  mode 'num' plants a distinct decimal literal
    at every 'any' slot (C04/C06/C16-style), mode 'mixed' alternates identifiers and small numbers."""
    NUMS = ["11.3", "12.7", "13.9", "14.6", "15.2", "16.8", "17.4", "18.1", "19.5", "21.7", "22.9", "23.6"]
    IDS = ["x", "y", "z", "k", "n", "p", "q", "u", "v", "w", "b", "c"]
    # integer literals (mode 'int'): together they use every digit in every place; some codes treat integers differently from decimals
    # (lowered digits in simple fractions, ordinals, numeric subscripts without indicator)
    INTS = ["18", "27", "36", "45", "90", "108", "72", "63", "54", "81", "209", "360"]

    def __init__(self, mode="mixed", mark="."):
        self.mode = mode
        self.mark = mark
        self.n = 0
        self.i = 0
        self.planted = []

    def atom(self, kind):
        if kind == "id" or (self.mode == "mixed" and (self.n + self.i) % 2 == 0):
            s = self.IDS[self.i % len(self.IDS)]
            self.i += 1
            return mi(s)
        if self.mode == "int":
            s = self.INTS[self.n % len(self.INTS)]
            self.n += 1
            self.planted.append(s)
            return mn(s)
        if self.mode == "num":
            s = self.NUMS[self.n % len(self.NUMS)].replace(".", self.mark)
            self.n += 1
            self.planted.append(s)
            return mn(s)
        s = str(2 + self.n % 7)
        self.n += 1
        return mn(s)


class DigitFiller(Filler):
    """'int' filler in which the k-th numeric slot gets a literal starting with digit d (three consecutive digits) and the other slots
    get repdigits - so that every digit can be put into every operand slot of every construct"""

    def __init__(self, k, d):
        Filler.__init__(self, "int")
        self.k, self.d = k, d

    def atom(self, kind):
        if kind == "id":
            return Filler.atom(self, kind)
        if self.n == self.k:
            s = "".join(str((self.d + j) % 10) for j in range(3))
        else:
            s = str(1 + self.n % 9) * 2
        self.n += 1
        self.planted.append(s)
        return mn(s)


class SpecialFiller(Filler):
    """'num' filler in which the k-th numeric slot gets the given literal instead (a decimal that is numerically a small integer, a
    half, ...): rules that compare an operand with a number see it as that number"""

    def __init__(self, k, lit, mark="."):
        Filler.__init__(self, "num", mark)
        self.k, self.lit = k, lit

    def atom(self, kind):
        if kind != "id" and self.n == self.k:
            s = self.lit.replace(".", self.mark)
            self.n += 1
            self.planted.append(s)
            return mn(s)
        return Filler.atom(self, kind)


def spine_shapes(depth, names=None):
    """All spine shapes of nesting depth <= depth: a shape is None (an atom) or (construct name,
    slot index holding the sub-shape or None, sub-shape)."""
    names = names or [c[0] for c in CONSTRUCTS]
    prev = [None]
    out = []
    for d in range(1, depth + 1):
        cur = []
        for name in names:
            slots = CONSTRUCT[name][1]
            for sub in prev:
                if sub is None:
                    cur.append((name, None, None))
                else:
                    for i, kind in enumerate(slots):
                        if kind == "any":
                            cur.append((name, i, sub))
        out.extend(cur)
        prev = cur
    return out


def build(shape, filler):
    """Instantiate a shape with atoms from `filler` (left-to-right)."""
    if shape is None:
        return filler.atom("any")
    name, pos, sub = shape
    slots, fn = CONSTRUCT[name][1], CONSTRUCT[name][2]
    args = []
    for i, kind in enumerate(slots):
        if pos is not None and i == pos:
            args.append(build(sub, filler))
        else:
            args.append(filler.atom(kind))
    return fn(*args)


def shape_name(shape):
    if shape is None:
        return "atom"
    name, pos, sub = shape
    if pos is None:
        return name
    return f"{name}[{pos}:{shape_name(sub)}]"


def sibling_pairs(names=None):
    """Row constructs with two composite operands (depth-1 each): interactions between siblings."""
    names = names or [c[0] for c in CONSTRUCTS]
    for r in ("add", "juxt2", "eq"):
        for n1 in names:
            for n2 in names:
                yield (r, n1, n2)


def build_pair(p, filler):
    r, n1, n2 = p
    a = build((n1, None, None), filler)
    b = build((n2, None, None), filler)
    if r == "add":
        return row(a, mo("+"), b)
    if r == "eq":
        return row(a, mo("="), b)
    return row(a, b)


# ---------------------------------------------------------------------------------------------
# deviation operators

def degenerate_atoms():
    return [
        ("empty-mrow", T("mrow")),
        ("empty-mi", T("mi")),
        ("empty-mn", T("mn")),
        ("empty-mo", T("mo")),
        ("empty-mtext", T("mtext")),
        ("blank-mi", mi(" ")),
        ("nbsp-mtext", mtext(" ")),
        ("mspace", T("mspace", width="1em")),
        ("mphantom", el("mphantom", mi("h"))),
        ("none", T("none")),
        ("mprescripts", T("mprescripts")),
        ("malignmark", T("malignmark")),
        ("foreign", T("foo", text="q")),
        ("html-in-token", T("mtext", [T("b", text="t")])),
        ("invisible-times", mo("\u2062")),
        ("apply-function", mo("\u2061")),
        ("invisible-comma", mo("\u2063")),
        ("invisible-plus", mo("\u2064")),
        ("invisible-mtext", mtext("\u2063")),
        # hollow constructs: an element of the right arity whose children are all empty (what an editor leaves behind as a template)
        ("hollow-msup", el("msup", T("mrow"), T("mrow"))),
        ("hollow-msub", el("msub", T("mi"), T("mi"))),
        ("hollow-msubsup", el("msubsup", T("mrow"), T("mrow"), T("mrow"))),
        ("hollow-mfrac", el("mfrac", T("mrow"), T("mrow"))),
        ("hollow-msqrt", el("msqrt", T("mrow"))),
        ("hollow-mroot", el("mroot", T("mrow"), T("mrow"))),
        ("hollow-munderover", el("munderover", T("mrow"), T("mrow"), T("mrow"))),
        ("hollow-mover", el("mover", T("mi"), T("mo"))),
        ("hollow-mtable", el("mtable", el("mtr", el("mtd", T("mrow"))))),
        ("hollow-mmultiscripts", el("mmultiscripts", T("mrow"), T("none"), T("none"))),
        ("hollow-mfenced", T("mfenced")),
    ]


WRAPS = [
    ("wrap-mstyle", lambda k: el("mstyle", k, mathcolor="red")),
    ("wrap-mpadded", lambda k: el("mpadded", k)),
    ("wrap-mrow", lambda k: row(k)),
    ("wrap-mrow2", lambda k: row(row(k))),
    ("wrap-semantics", lambda k: el("semantics", k)),
    ("wrap-mphantom", lambda k: el("mphantom", k)),
]

INSERTS = [
    ("ins-emptybase-sup", lambda: el("msup", T("mrow"), mn("2"))),
    ("ins-emptybase-sub", lambda: el("msub", T("mrow"), mn("1"))),
    ("ins-emptybase-subsup", lambda: el("msubsup", T("mrow"), mn("1"), mn("2"))),
    ("ins-mspace", lambda: T("mspace", width="0.5em")),
    ("ins-invisible-times", lambda: mo("\u2062")),
    ("ins-apply-function", lambda: mo("\u2061")),
]

ATTRS = [
    ("id", "author7"), ("mathvariant", "bold"), ("form", "prefix"), ("intent", "foo"), ("arg", "a"),
    ("width", "2em"), ("open", "<"), ("data-changed", "added"), ("class", "MJX-x"),
]


def deviations(t):
    """Yield (label, term) for every single deviation of t (t is the child of <math>)."""
    for path, node in list(t.walk()):
        if not path:
            # root: only wraps and attributes
            for wn, w in WRAPS:
                yield f"{wn}@root", w(t.copy())
            for an, av in ATTRS:
                c = t.copy()
                c.attrs[an] = av
                yield f"attr-{an}@root", c
            continue
        ppath, idx = path[:-1], path[-1]
        where = "/".join(map(str, path))
        for dn, d in degenerate_atoms():
            c = t.copy()
            c.at(ppath).kids[idx] = d
            yield f"{dn}@{where}", c
        c = t.copy()
        del c.at(ppath).kids[idx]
        if c.at(ppath).kids or c.at(ppath).tag not in LEAVES:
            yield f"delete@{where}", c
        c = t.copy()
        c.at(ppath).kids.insert(idx, node.copy())
        yield f"dup@{where}", c
        parent_is_token = t.at(ppath).tag in LEAVES
        if node.tag not in ("mprescripts", "none") and not parent_is_token:
            # (a wrapped <mprescripts/>/<none/> or a wrapper inside a token is not well-formed MathML)
            for wn, w in WRAPS:
                c = t.copy()
                c.at(ppath).kids[idx] = w(node.copy())
                yield f"{wn}@{where}", c
        for an, av in ATTRS:
            c = t.copy()
            c.at(path).attrs[an] = av
            yield f"attr-{an}@{where}", c
    # insertions: a degenerate sibling after each child of a row-like node (TeX "{}^2", "{}_1", stray space)
    for path, node in list(t.walk()):
        if node.tag in ("mrow", "msqrt", "mtd", "mstyle", "math", "mpadded", "menclose", "merror"):
            where = "/".join(map(str, path)) or "root"
            for idx in range(len(node.kids) + 1):
                for iname, mk in INSERTS:
                    c = t.copy()
                    c.at(path).kids.insert(idx, mk())
                    yield f"{iname}@{where}:{idx}", c
    # an EXTRA child that renders as nothing (alignment marks, space, phantom, empty row) among the children of an element whose children
    # have fixed roles: the input has one child too many - it is refused, or the extra child goes and the arity is right
    for path, node in list(t.walk()):
        if node.tag in ("mfrac", "mroot", "msub", "msup", "msubsup", "munder", "mover", "munderover", "mmultiscripts"):
            where = "/".join(map(str, path)) or "root"
            for idx in range(len(node.kids) + 1):
                for iname, mk in (("malignmark", lambda: T("malignmark")), ("maligngroup", lambda: T("maligngroup")), ("mspace", lambda: T("mspace", width="1em")),
                                  ("mphantom", lambda: el("mphantom", mi("h"))), ("empty-mrow", lambda: T("mrow"))):
                    c = t.copy()
                    c.at(path).kids.insert(idx, mk())
                    yield f"extra-{iname}@{where}:{idx}", c
    # one deviation = the same wrapper around *every* child of one node (what a converter emits for
    # \frac{\color{red}a}{\color{red}b})
    for path, node in list(t.walk()):
        if len(node.kids) >= 2 and node.tag not in LEAVES and all(k.tag not in ("mprescripts", "none", "mtr", "mtd", "mlabeledtr") for k in node.kids):
            where = "/".join(map(str, path)) or "root"
            for wn, w in WRAPS[:3]:
                c = t.copy()
                n = c.at(path)
                n.kids = [w(k) for k in n.kids]
                yield f"all-{wn}@{where}", c


# ---------------------------------------------------------------------------------------------
# reading the library's output back

def parse_xml(s):
    """Parse an XML string into a T tree (namespaces stripped). Raises ET.ParseError."""
    root = ET.fromstring(s)
    return _from_et(root)


def _from_et(e):
    tag = e.tag
    if "}" in tag:
        tag = tag.split("}", 1)[1]
    t = T(tag)
    for k, v in e.attrib.items():
        if k.startswith("{http://www.w3.org/XML/1998/namespace}"):
            k = "xml:" + k.split("}", 1)[1]          # the predeclared prefix: keeps xml:lang apart from lang when a replay document is re-read
        elif "}" in k:
            k = k.split("}", 1)[1]
        t.attrs[k] = v
    kids = list(e)
    if kids:
        t.kids = [_from_et(k) for k in kids]
        # mixed content: keep text around children for leaf tokens with embedded elements
        txt = (e.text or "") + "".join((k.tail or "") for k in kids)
        t.text = txt if txt.strip() else None
    else:
        t.text = e.text if e.text is not None else None
    return t
