"""Client side of the `mc` executor: process management, timeouts, isolation of aborting cases,
and a process pool in which every worker owns one `mc` child (so Python oracles and the library
run in parallel on all cores, and a crash of the library takes down exactly one in-flight job)."""
import json, os, select, signal, subprocess, sys, time, multiprocessing

VERIF = os.path.dirname(os.path.dirname(os.path.abspath(__file__)))
MC_BIN = os.environ.get("VERIF_MC_BIN") or "/verif/.build/release/mc"        # absolute: mc/.cargo/config.toml sets target-dir=/verif/.build (also used from vp-run snapshots)
RULES = os.environ.get("VERIF_RULES") or "/repo/Rules"            # bin/check points this at a private snapshot of /repo/Rules taken right after the build
SRC = os.environ.get("VERIF_SRC") or "/repo/src"                  # likewise for the sources some oracles read (operator dictionary, entity table, preference defaults, panic lines)
WORK = "/verif/.work"
HOME = os.path.join(WORK, "home")          # empty: the library reads ~/.config/MathCAT/prefs.yaml


class McDied(Exception):
    def __init__(self, kind, detail=""):
        super().__init__(f"{kind} {detail}")
        self.kind = kind          # 'abort' | 'timeout'
        self.detail = detail


def child_env():
    env = {k: v for k, v in os.environ.items() if k not in ("MathCATRulesDir",)}
    os.makedirs(HOME, exist_ok=True)
    env["HOME"] = HOME
    env["XDG_CONFIG_HOME"] = os.path.join(HOME, ".config")
    env["RUST_BACKTRACE"] = "0"
    return env


class Mc:
    """One `mc serve` child process."""

    def __init__(self):
        self.p = None
        self.jobs = 0
        self.start()

    def start(self):
        self.p = subprocess.Popen([MC_BIN, "serve"], stdin=subprocess.PIPE, stdout=subprocess.PIPE,
                                  stderr=subprocess.DEVNULL, env=child_env(), bufsize=0)
        self.buf = b""

    def close(self):
        if self.p and self.p.poll() is None:
            try:
                self.p.stdin.close()
            except Exception:
                pass
            try:
                self.p.wait(timeout=2)
            except Exception:
                self.p.kill()
                self.p.wait()
        self.p = None

    def kill(self):
        if self.p:
            try:
                self.p.kill()
                self.p.wait()
            except Exception:
                pass
        self.p = None

    def _readline(self, deadline):
        fd = self.p.stdout.fileno()
        while True:
            i = self.buf.find(b"\n")
            if i >= 0:
                line, self.buf = self.buf[:i], self.buf[i + 1:]
                return line
            left = deadline - time.time()
            if left <= 0:
                raise McDied("timeout")
            r, _, _ = select.select([fd], [], [], min(left, 5.0))
            if not r:
                continue
            chunk = os.read(fd, 1 << 20)
            if not chunk:
                rc = self.p.wait()
                raise McDied("abort", f"exit={rc}")
            self.buf += chunk

    def run(self, job, timeout=120.0):
        """Run one job; raises McDied if the child dies or does not answer in time."""
        if self.p is None or self.p.poll() is not None:
            self.start()
        self.jobs += 1
        job = dict(job)
        job["id"] = self.jobs
        data = (json.dumps(job, ensure_ascii=False) + "\n").encode("utf-8", "surrogatepass")
        try:
            # write in pieces while draining nothing: the child only answers after reading a line
            self.p.stdin.write(data)
        except BrokenPipeError:
            rc = self.p.wait()
            self.p = None
            raise McDied("abort", f"exit={rc}")
        try:
            line = self._readline(time.time() + timeout)
        except McDied:
            self.kill()
            raise
        res = json.loads(line.decode("utf-8", "replace"))
        if res.get("id") != job["id"]:
            self.kill()
            raise McDied("abort", "protocol out of step: " + str(res)[:200])
        return res

    def run_cases(self, setup, cases, fresh=False, keep_going=False, per_case_timeout=20.0):
        """Run `cases` (list of op lists) after `setup`; returns (setup_results, [case_results]).
        A case that kills or hangs the child is isolated by re-running the cases one at a time and is
        reported as [["abort", detail]] / [["timeout"]]; the others keep their normal results."""
        job = {"setup": setup, "cases": cases, "fresh": fresh, "keep_going": keep_going}
        try:
            res = self.run(job, timeout=30.0 + per_case_timeout + 0.05 * len(cases))
            return res["setup"], res["cases"]
        except McDied:
            pass
        out = []
        setup_res = None
        for c in cases:
            try:
                res = self.run({"setup": setup, "cases": [c], "fresh": fresh, "keep_going": keep_going},
                               timeout=per_case_timeout)
                setup_res = res["setup"]
                out.append(res["cases"][0])
            except McDied as e:
                out.append([[e.kind, e.detail]] + [["x"]] * (len(c) - 1))
        return setup_res or [], out

    def sched(self, threads, schedule, timeout=60.0):
        return self.run({"sched": {"threads": threads, "schedule": schedule}}, timeout=timeout)


# ------------------------------------------------------------------------------------------------
# process pool: each worker process owns one Mc

_worker_mc = None


def worker_mc():
    global _worker_mc
    if _worker_mc is None:
        _worker_mc = Mc()
    return _worker_mc


def _init_worker():
    signal.signal(signal.SIGINT, signal.SIG_IGN)


def nproc():
    try:
        n = int(os.environ.get("VERIF_JOBS", "0"))
    except ValueError:
        n = 0
    return n if n > 0 else min(16, os.cpu_count() or 4)


def pmap(func, items, procs=None, chunksize=1):
    """Unordered parallel map over `items` (an iterable; consumed lazily). `func` runs in a worker
    process and may call worker_mc()."""
    procs = procs or nproc()
    if procs == 1:
        for it in items:
            yield func(it)
        return
    ctx = multiprocessing.get_context("fork")
    with ctx.Pool(procs, initializer=_init_worker) as pool:
        for r in pool.imap_unordered(func, items, chunksize):
            yield r


def yaml2json(path):
    """Parse a YAML file with yaml-rust (the parser MathCAT uses). Hashes come back as lists of
    {"k":..,"v":..} so that order and non-string keys survive."""
    out = subprocess.run([MC_BIN, "yaml2json", path], stdout=subprocess.PIPE, stderr=subprocess.PIPE, env=child_env())
    if out.returncode != 0:
        raise RuntimeError(f"yaml2json {path}: {out.stderr.decode()[:200]}")
    return json.loads(out.stdout.decode("utf-8"))
