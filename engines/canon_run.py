"""Shared exploration for C01 (no visible content lost/invented) and C02 (returned MathML is
well-formed canonical MathML): term grammar G with deviation-bounded degenerate children, three
separator locales, plus hand-listed normalisation-trigger families and an escaping family."""
import json, re
import xml.etree.ElementTree as ET
from common import Run, norm_ids, is_ok, is_err, is_panic, val, short
import terms, mcx, vis
from terms import T, mi, mn, mo, mtext, row, el

LOCALES = {
    "US": [["pref", "Language", "en"], ["pref", "DecimalSeparator", "."]],
    "EU": [["pref", "Language", "en"], ["pref", "DecimalSeparator", ","]],
    "CH": [["pref", "Language", "de-ch"], ["pref", "DecimalSeparator", "Auto"]],
}

ARITY = {"mfrac": 2, "mroot": 2, "msub": 2, "msup": 2, "munder": 2, "mover": 2, "msubsup": 3, "munderover": 3,
         "msqrt": 1, "menclose": 1, "mtd": 1, "merror": 1, "math": 1}
GONE = ("mfenced", "mstyle", "mpadded", "mphantom", "mspace", "semantics", "annotation", "annotation-xml")


# ---------------------------------------------------------------------------------------------
# special families (normalisation triggers named in the statement / anchors)

def special_terms():
    S = []
    def add(name, t):
        S.append((name, t))
    add("minus-ascii", row(mi("a"), mo("-"), mn("1")))
    add("neg-mn", row(mi("a"), mo("+"), mn("-3")))
    add("neg-mn-u2212", row(mi("a"), mo("="), mn("−3.5")))
    add("mn-minus-only", mn("-"))
    for p in ("'", "′", "″", "‴"):
        add(f"prime-{ord(p):x}", row(el("msup", mi("f"), mo(p)), mo("("), mi("x"), mo(")")))
        add(f"prime-row-{ord(p):x}", row(mi("f"), mo(p), mo(p), mo("="), mn("0")))
    add("primes-3", row(mi("y"), mo("'"), mo("'"), mo("'")))
    add("dots-3", row(mn("1"), mo(","), mo("."), mo("."), mo("."), mo(","), mi("n")))
    add("dots-2", row(mi("a"), mo("."), mo("."), mi("b")))
    add("bars-2", row(mo("|"), mo("|"), mi("x"), mo("|"), mo("|")))
    add("bars-abs", row(mo("|"), mi("x"), mo("|"), mo("|"), mi("y"), mo("|")))
    for d in ("--", "---", "----"):
        add(f"dash-{len(d)}", row(mi("a"), mo(d), mi("b")))
        add(f"dash-text-{len(d)}", row(mtext("see"), mtext(d), mtext("below")))
    add("arc-sin", row(mi("arc"), mi("sin"), mi("x")))
    add("arc-sin-2", row(mi("arc"), mo("⁡"), mi("sin"), mo("⁡"), mi("x")))
    add("mi-run", row(mi("s"), mi("l"), mi("o"), mi("p"), mi("e"), mo("="), mn("2")))
    add("mi-run-abc", row(mi("a"), mi("b"), mi("c")))
    add("word-velocity", row(*[mi(c) for c in "velocity"]))
    add("AB-bar", el("mover", mi("AB"), mo("¯")))
    add("AB-arrow", el("mover", row(mi("A"), mi("B")), mo("→")))
    add("angle-ABC", row(mo("∠"), mi("ABC")))
    add("triangle-ABC", row(mi("△"), mi("ABC")))
    for mv in ("bold", "italic", "double-struck", "script", "fraktur", "sans-serif", "monospace", "normal"):
        add(f"mv-{mv}", row(mi("R", mathvariant=mv), mo("+"), mn("12", mathvariant=mv), mo("+"), mi("αb", mathvariant=mv)))
    add("mfenced-default", el("mfenced", mi("a"), mi("b"), mi("c")))
    add("mfenced-seps", el("mfenced", mi("a"), mi("b"), mi("c"), mi("d"), separators=";,"))
    add("mfenced-noseps", el("mfenced", mi("a"), mi("b"), separators=""))
    add("mfenced-empty-open", el("mfenced", mi("a"), mi("b"), open="", close="]"))
    add("mfenced-one", el("mfenced", row(mi("a"), mo("+"), mi("b")), open="|", close="|"))
    add("mfenced-none", T("mfenced"))
    add("mfenced-bar", el("mfenced", mi("a"), mo("|"), mi("b"), open="{", close="}"))
    add("mglyph", row(mi("x"), mo("+"), T("mi", [T("mglyph", src="g.png", alt="glyph")])))
    add("html-token", T("mtext", [T("span", text="hello "), T("b", text="world")]))
    add("xml-special", row(mtext("a<b&c>d\"e'f"), mo("<"), mi("x"), mo("&"), mo(">"), mn("2")))
    add("ms", row(T("ms", text="str"), mo("+"), T("ms", text="a b", lquote="'", rquote="'")))
    add("merror", el("merror", mtext("bad"), mi("x")))
    add("none-scripts", el("mmultiscripts", mi("C"), T("none"), mn("14"), T("mprescripts"), mn("6"), T("none")))
    add("mmulti-empty-base", row(el("msup", T("mrow"), mn("2")), mi("x")))
    add("empty-base-sub", row(el("msub", T("mrow"), mn("1")), mi("H")))
    add("chem", row(el("msub", mi("H"), mn("2")), mi("O")))
    add("chem2", row(mi("Na"), mi("Cl"), mo("+"), el("msub", mi("H"), mn("2")), mi("S"), el("msub", mi("O"), mn("4")), mo("→"), mi("x")))
    add("chem-charge", row(el("msup", mi("Ca"), row(mn("2"), mo("+"))), mo("+"), el("msubsup", mi("SO"), mn("4"), row(mn("2"), mo("−")))))
    # more chemistry: states of matter (as subscripts and in line), ion with a state, isotope with prescripts, bonds, equilibrium with conditions,
    # hydrate, structural formula, electron configuration
    add("chem-state-sub", row(el("msubsup", mi("Na"), mi("aq"), mo("+")), mo("+"), el("msub", mi("Cl"), row(mo("("), mi("aq"), mo(")")))))
    add("chem-state-inline", row(el("msub", mi("H"), mn("2")), mi("O"), mo("("), mi("l"), mo(")"), mo("→"), el("msub", mi("H"), mn("2")), mi("O"), mo("("), mi("g"), mo(")")))
    add("chem-state-mtext", row(mi("Na"), mi("Cl"), mtext("(s)"), mo("→"), el("msup", mi("Na"), mo("+")), mtext("(aq)")))
    add("chem-isotope", row(el("mmultiscripts", mi("U"), T("mprescripts"), mn("92"), mn("235")), mo("+"), el("mmultiscripts", mi("n"), T("mprescripts"), mn("0"), mn("1"))))
    add("chem-bonds", row(mi("H"), mo("-"), mi("C"), mo("≡"), mi("C"), mo("-"), mi("H"), mo("+"), mi("O"), mo("="), mi("C"), mo("="), mi("O")))
    add("chem-equilibrium", row(el("msub", mi("N"), mn("2")), mo("+"), mn("3"), el("msub", mi("H"), mn("2")), el("mover", mo("⇌"), mtext("heat")), mn("2"), mi("N"), el("msub", mi("H"), mn("3"))))
    add("chem-hydrate", row(mi("Cu"), mi("S"), el("msub", mi("O"), mn("4")), mo("·"), mn("5"), el("msub", mi("H"), mn("2")), mi("O")))
    add("chem-paren-group", row(mi("Ca"), el("msub", row(mo("("), mi("O"), mi("H"), mo(")")), mn("2")), mo("+"), mi("Al"), el("msub", row(mo("("), mi("S"), el("msub", mi("O"), mn("4")), mo(")")), mn("3"))))
    add("chem-electron-config", row(mn("1"), el("msup", mi("s"), mn("2")), mn("2"), el("msup", mi("s"), mn("2")), mn("2"), el("msup", mi("p"), mn("6"))))
    add("number-split", row(mn("1"), mo(","), mn("234"), mo("."), mn("5"), mo("+"), mn("1"), mtext(" "), mn("000")))
    add("number-list", row(mi("f"), mo("("), mn("1"), mo(","), mn("234"), mo(")")))
    add("roman", row(mi("XII"), mo("+"), mn("iv"), mo("="), mtext("XVI")))
    add("mixed", row(mn("3"), el("mfrac", mn("1"), mn("2"))))
    add("times-digit", row(mn("2"), mo("×"), mn("3"), mo("⋅"), mn("4")))
    add("mstack", el("mstack", mn("123"), el("msrow", mo("+"), mn("45")), T("msline"), mn("168")))
    add("mlongdiv", el("mlongdiv", mn("3"), mn("435"), mn("1306")))
    add("maction", el("maction", mi("a"), mi("b"), actiontype="toggle", selection="2"))
    add("mlabeledtr", el("mtable", el("mlabeledtr", el("mtd", mtext("(2.1)")), el("mtd", mi("E")), el("mtd", mo("=")), el("mtd", row(mi("m"), el("msup", mi("c"), mn("2")))))))
    add("nested-mrow", row(row(row(mi("a"))), row(mo("+")), row(row(mi("b"), row(mo("!"))))))
    add("ws-tokens", row(mi(" x "), mo(" + "), mn(" 1 "), mtext("  and  "), mi("y")))
    add("nbsp-token", row(mi("x"), mtext(" "), mi("y"), mtext(" "), mi("z")))
    add("mspace-between", row(mi("x"), T("mspace", width="1em"), mi("y")))
    add("mphantom-between", row(mi("x"), el("mphantom", mo("+"), mi("h")), mi("y")))
    add("sem-annot-first", el("semantics", T("annotation", text="x+y"), row(mi("x"), mo("+"), mi("y"))))
    add("sem-pres", el("semantics", T("annotation-xml", [row(mi("p"), mo("+"), mi("q"))], encoding="MathML-Presentation"), T("annotation", text="tex")))
    add("sem-content", el("semantics", row(mi("x"), mo("+"), mi("y")), T("annotation-xml", [el("apply", T("plus"), T("ci", text="x"), T("ci", text="y"))], encoding="MathML-Content")))
    add("pseudo-scripts", row(mi("x"), mo("*"), mo("+"), mn("30"), mo("°"), mo("+"), mi("f"), mo("′")))
    add("intent-row", row(mi("x"), intent="foo"))
    add("colon-pair", row(mi("a"), mo(":"), mo(":"), mi("b"), mo(":"), mo("="), mi("c")))
    add("fn-apply", row(mi("f"), mo("⁡"), mo("("), mi("x"), mo(")"), mo("⁢"), mi("y")))
    add("vec-hat", row(el("mover", mi("x"), mo("→")), mo("+"), el("mover", mi("y"), mo("^")), mo("+"), el("munder", mi("z"), mo("_")), mo("+"), el("mover", mi("w"), mo("~"))))
    add("mover-minus", el("mover", mi("x"), mo("−")))
    add("under-brace", el("munder", el("munder", row(mi("a"), mo("+"), mi("b")), mo("⏟")), mtext("sum")))
    add("lim", row(el("munder", mi("lim"), row(mi("x"), mo("→"), mn("0"))), el("mfrac", row(mi("sin"), mi("x")), mi("x"))))
    add("multichar-mo", row(mi("a"), mo("<="), mi("b"), mo("!="), mi("c"), mo("->"), mi("d"), mo(":="), mi("e")))
    add("units", row(mn("5"), mi("km"), mo("/"), mi("h")))
    add("script-digits", el("msup", mn("10"), mn("−2")))
    add("wiris-fence", row(mo("<"), mi("a"), mo(","), mi("b"), mo(">")))
    add("empty-math", T("mrow"))
    return S


def escaping_terms():
    out = []
    specials = ["<", ">", "&", '"', "'", "&amp;", "]]>", "a<b", "⁡", "⁢", "⁣", "⁤"]
    for kind in ("mi", "mn", "mo", "mtext", "ms"):
        for sp in specials:
            out.append((f"esc-{kind}", row(mi("y"), mo("="), T(kind, text=sp))))
    for sp in ['a"b', "a'b", "a<b", "a&b", "a>b", "a&amp;b", "\"'<>&"]:
        t = row(mi("y", title=sp), mo("=", **{"data-note": sp}), mn("2", href=sp))
        out.append(("esc-attr", t))
    # annotation encodings become part of an attribute NAME in the result (data-annotation-<encoding>): media types with a suffix or
    # parameters, blanks, quotes, non-ASCII, a leading digit
    for i_, enc in enumerate(["image/svg+xml", "application/x-tex; charset=UTF-8", "a b", "x=y", "Te'X", 'Te"X', "\u03c0", "1st", "<x>", ""]):
        out.append((f"esc-annotation-{i_}", el("semantics", mi("x"), T("annotation", text="z", encoding=enc))))
        out.append((f"esc-annotation-xml-{i_}", row(mi("y"), mo("="), el("semantics", mi("x"), T("annotation-xml", kids=[mi("q")], encoding=enc)))))
    # attributes in the xml namespace next to an attribute with the same local name; the same for a declared prefix
    out.append(("esc-xml-attr-a", row(mi("x", **{"xml:lang": "en", "lang": "fr"}), mo("+"), mn("1", **{"xml:space": "preserve", "xml:id": "q7"}))))
    out.append(("esc-xml-attr-b", row(mi("x", **{"lang": "fr", "xml:lang": "en"}), mo("+"), mn("1"))))
    return out


# ---------------------------------------------------------------------------------------------
# oracles

def failure_site(tin, b):
    """The smallest input subtree that contains the discrepancy: descend while exactly one child's
    normalised visible text is missing from the output string b.  Returns 'tag<parent' of that subtree."""
    node, parent = tin, "math"
    while True:
        missing = [k for k in node.kids if (lambda s: s and s not in b)(vis.N(vis.vis(k), True))]
        if len(missing) != 1 or node.tag in vis.TOKENS:
            break
        node, parent = missing[0], node.tag
    deco = ""
    if node.tag == "mfenced":
        deco = "[" + ",".join(sorted(k for k in node.attrs if k in ("open", "close", "separators"))) + "]"
        return f"{node.tag}{deco}"
    return f"{node.tag}<{parent}"


def c01_check(label, tin, tout):
    """tin: input term (child of math); tout: parsed output (math element). -> list of (key, what)"""
    a = vis.N(vis.vis(tin), input_side=True)
    b = vis.N(vis.vis(tout, output=True))
    if a == b:
        return []
    site = failure_site(tin, b)
    if sorted(a) == sorted(b):
        return [(f"reordered|{site}", f"visible characters reordered: input {a!r} output {b!r}")]
    from collections import Counter
    ca, cb = Counter(a), Counter(b)
    lost = "".join(sorted((ca - cb).elements()))
    inv = "".join(sorted((cb - ca).elements()))
    kind = "lost" if lost and not inv else "invented" if inv and not lost else "changed"
    cls_ = lambda s: "".join(sorted(set("9" if c.isdigit() else "a" if c.isalpha() else c for c in s)))
    return [(f"{kind}|lost:{cls_(lost)}|invented:{cls_(inv)}|site:{site}", f"visible content {kind}: input {a!r} output {b!r} (lost {lost!r}, invented {inv!r})")]


def c02_check(tout, canon_str):
    """structural well-formedness of the returned tree -> list of (key, what)"""
    out = []
    if tout.tag != "math":
        return [("root-not-math", f"root element is <{tout.tag}>")]
    parents = {}
    for path, n in tout.walk():
        for k in n.kids:
            parents[id(k)] = n.tag
    for path, n in tout.walk():
        tag = n.tag
        nk = len(n.kids)
        pt = parents.get(id(n), "-")
        if tag in ARITY and nk != ARITY[tag]:
            out.append((f"arity|{tag}|{nk}|in:{pt}", f"<{tag}> has {nk} children (child of <{pt}>)"))
        if tag == "mmultiscripts":
            idx = [i for i, k in enumerate(n.kids) if k.tag == "mprescripts"]
            if len(idx) > 1:
                out.append(("mmultiscripts|two-mprescripts", "more than one mprescripts"))
            elif idx:
                if idx[0] % 2 == 0 or (nk - idx[0] - 1) % 2 == 1:
                    out.append((f"mmultiscripts|unpaired|{idx[0]}of{nk}", f"mmultiscripts with mprescripts at {idx[0]} of {nk} children"))
            elif nk % 2 == 0:
                out.append((f"mmultiscripts|unpaired|{nk}", f"mmultiscripts with {nk} children"))
        if tag in ("mi", "mn", "mo", "mtext", "ms") and not n.kids and not (n.text or ""):
            out.append((f"empty-token|{tag}|in:{pt}", f"empty <{tag}/> in the result (child of <{pt}>)"))
        if tag == "mrow" and nk < 2 and "intent" not in n.attrs:
            out.append((f"short-mrow|{nk}|in:{pt}", f"<mrow> with {nk} children and no intent (child of <{pt}>)"))
        if tag in GONE:
            out.append((f"wrapper-left|{tag}", f"<{tag}> survived canonicalization"))
        if "id" not in n.attrs:
            pass    # ids are C09's business
    return out


def strip_ids(t):
    a = {k: v for k, v in t.attrs.items() if k != "id" and k != "data-id-added"}
    if t.kids:
        return [t.tag, a, [strip_ids(k) for k in t.kids]]
    return [t.tag, a, t.text or ""]


def esc_check(tin, tout):
    """planted attribute values must come back unchanged (escaping round trip) wherever the attribute survives"""
    out = []
    planted = {}
    for _, n in tin.walk():
        for k in ("title", "data-note", "href"):
            if k in n.attrs:
                planted[k] = n.attrs[k]
    for _, n in tout.walk():
        for k, v in planted.items():
            if k in n.attrs and n.attrs[k] != v:
                out.append((f"attr-escape|{k}", f"attribute {k}={v!r} came back as {n.attrs[k]!r}"))
    return out


def shape_key(label):
    """mechanical shape class from a case label 'construct-shape|deviation@path' -> construct + deviation kind + child index"""
    return label


def work(item):
    prop, locale, cases = item          # cases: list of (label, term)
    mc = mcx.worker_mc()
    setup = [["rules_dir", mcx.RULES], ["pref", "TTS", "none"]] + LOCALES[locale]
    ops = [[["mathml", terms.doc(t)], ["navmml"]] for _, t in cases]
    _, res = mc.run_cases(setup, ops)
    viol, counts, nontriv = [], {"evaluations": 0, "accepted": 0, "rejected": 0, "skipped_panics": 0}, []
    for (label, t), r in zip(cases, res):
        counts["evaluations"] += 1
        r0 = r[0]
        replay = {"locale": locale, "label": label, "doc": terms.doc(t)}
        if is_panic(r0):
            counts["skipped_panics"] += 1      # owned by C08
            continue
        if not is_ok(r0):
            counts["rejected"] += 1
            continue
        counts["accepted"] += 1
        s = val(r0)
        try:
            tout = terms.parse_xml(s)
        except ET.ParseError as e:
            if prop == "C02":
                viol.append((f"C02|unparsable|{label_class(label)}", f"{label}: returned string is not well-formed XML: {e}", replay))
            continue
        if prop == "C01":
            nontriv.append(hash(vis.N(vis.vis(t), True)) ^ hash(label_class(label)))
            for k, w in c01_check(label, t, tout):
                viol.append((f"C01|{k}", f"[{locale}] {label}: {w}", replay))
        else:
            nontriv.append(hash(json.dumps(strip_ids(tout), ensure_ascii=False)))
            for k, w in c02_check(tout, s) + esc_check(t, tout):
                viol.append((f"C02|{k}", f"[{locale}] {label}: {w}", replay))
            r1 = r[1]
            if is_ok(r1):
                try:
                    tn = terms.parse_xml(val(r1)[0])
                    if strip_ids(tn) != strip_ids(tout):
                        viol.append((f"C02|navmml-differs|{label_class(label)}", f"{label}: get_navigation_mathml at the root differs from the returned MathML", replay))
                except ET.ParseError as e:
                    viol.append((f"C02|navmml-unparsable|{label_class(label)}", f"{label}: get_navigation_mathml is not well-formed: {e}", replay))
            elif is_err(r1):
                viol.append((f"C02|navmml-error|{label_class(label)}", f"{label}: get_navigation_mathml failed after a successful set_mathml: {short(r1, 120)}", replay))
    return viol, counts, nontriv


# ---------------------------------------------------------------------------------------------
# the same expression as different generators serialise it: MathJax class attributes (set_mathml strips them from the string before the
# XML parse), other attributes, namespace prefixes, one element per line.  None of this is visible content, so the C01 oracle applies
# to the result unchanged.

def _decorate_tags(doc, attr, which="all"):
    tags = list(re.finditer(r"<(m[a-z]+)((?:\s[^<>]*?)?)(/?)>", doc))
    tags = [m for m in tags if m.group(1) != "math"]
    if which == "ends" and len(tags) >= 2:
        tags = [tags[0], tags[-1]]
    elif which == "tokens":
        tags = [m for m in tags if m.group(1) in ("mi", "mn", "mo", "mtext")]
    out, last = [], 0
    for m in tags:
        out.append(doc[last:m.start()])
        out.append(f"<{m.group(1)}{m.group(2)} {attr}{m.group(3)}>")
        last = m.end()
    out.append(doc[last:])
    return "".join(out)


SURFACES = {
    "mjx2-all": lambda d: _decorate_tags(d, 'class="MJX-TeXAtom-ORD"'),
    "mjx2-ends": lambda d: _decorate_tags(d, 'class="MJX-TeXAtom-ORD"', "ends"),
    "mjx2-tokens-squote": lambda d: _decorate_tags(d, "class='MJX-variant'", "tokens"),
    "mjx2-spaced": lambda d: _decorate_tags(d, 'class = "MJX-TeXAtom-OP"', "ends"),
    "mjx3-all": lambda d: _decorate_tags(d, 'class="data-mjx-texclass"'),
    "mjx3-ends": lambda d: _decorate_tags(d, 'class="data-mjx-variant"', "ends"),
    "mjx2-then-title": lambda d: _decorate_tags(_decorate_tags(d, 'title="t"', "tokens"), 'class="MJX-TeXAtom-ORD"', "ends"),
    "class-other": lambda d: _decorate_tags(d, 'class="hl"', "all"),
    "prefix-m": lambda d: re.sub(r"<(/?)(m[a-z]+)", r"<\1m:\2", d).replace("<m:math", '<m:math xmlns:m="http://www.w3.org/1998/Math/MathML"', 1),
    "lines": lambda d: d.replace("><", ">\n<"),
    "mjx2-all-lines": lambda d: _decorate_tags(d, 'class="MJX-TeXAtom-ORD"').replace("><", ">\n<"),
}


def work_surface(item):
    prop, locale, cases = item          # cases: list of (label, term, surface)
    mc = mcx.worker_mc()
    setup = [["rules_dir", mcx.RULES], ["pref", "TTS", "none"]] + LOCALES[locale]
    docs = [SURFACES[sf](terms.doc(t)) for _, t, sf in cases]
    _, res = mc.run_cases(setup, [[["mathml", d]] for d in docs])
    viol, counts, nontriv = [], {"evaluations": 0, "surface_accepted": 0, "surface_rejected": 0, "skipped_panics": 0}, []
    for (label, t, sf), d, r in zip(cases, docs, res):
        counts["evaluations"] += 1
        r0 = r[0]
        replay = {"locale": locale, "label": label, "doc": terms.doc(t), "surface": sf, "sent": d}
        if is_panic(r0):
            counts["skipped_panics"] += 1
            continue
        if not is_ok(r0):
            counts["surface_rejected"] += 1
            continue
        counts["surface_accepted"] += 1
        try:
            tout = terms.parse_xml(val(r0))
        except ET.ParseError:
            continue
        nontriv.append(hash(vis.N(vis.vis(t), True)) ^ hash((label_class(label), sf)))
        for k, w in c01_check(label, t, tout):
            viol.append((f"C01|surface:{sf}|{k}", f"[{locale}] {label} serialised as {sf}: {w}", replay))
    return viol, counts, nontriv


def _dispatch(job):
    return work_surface(job[1:]) if job[0] == "SURFACE" else work(job)


def label_class(label):
    """'sup[1:frac]|empty-mi@0/1' -> 'sup|empty-mi': outermost construct + deviation operators (paths dropped)"""
    parts = label.split("|")
    head = parts[0].split("[")[0]
    if head.startswith("emptybase:"):          # emptybase:<kind of empty script>:<neighbour term>:<tail> -> the neighbour is not part of the class
        f = parts[0].split(":")
        head = ":".join([f[0], f[1], f[-1]])
    return "|".join([head] + [p.split("@")[0] for p in parts[1:]])


def gen_cases(tier):
    """(label, term) — level 0 spines, level 1 deviations, specials.
    The author attribute data-changed='added' is not planted here: it is the library's own marker for
    "this element was inserted by MathCAT" in re-submitted output, so an author who puts it on a
    visible token has declared that token removable (the attribute deviation stays in C08's space)."""
    return [c for c in _gen_cases(tier) if "attr-data-changed" not in c[0] and _prescripts_ok(c[1])]


def _prescripts_ok(t):
    """<mprescripts/> is only meaningful as a direct child of <mmultiscripts>; anywhere else the input is
    not well-formed MathML and has no defined reading order (such inputs stay in C08's space)."""
    for _, n in t.walk():
        if n.tag != "mmultiscripts" and any(k.tag == "mprescripts" for k in n.kids):
            return False
    return True


def test_cases(private_use=True):
    """the MathML inputs of the repository's own tests (inputs only; those an XML parser reads without an entity table): labels
    'test:<hash>'.  A <math> with several children is given the row MathML implies."""
    import hashlib, testcorpus
    out = []
    for x in testcorpus.expressions():
        if not private_use and any(0xE000 <= ord(c) <= 0xF8FF or ord(c) >= 0xF0000 for c in x):
            continue            # for checks whose alphabet excludes private-use characters (they are passed through by design)
        try:
            m = terms.parse_xml(x)
        except Exception:
            continue
        if m.tag != "math" or not m.kids:
            continue
        t = m.kids[0] if len(m.kids) == 1 else row(*m.kids)
        out.append(("test:" + hashlib.sha1(x.encode()).hexdigest()[:10], t))
    return out


def merge_cases():
    """token sequences that one of the merging / re-reading heuristics of canonicalization takes for ONE thing (arc + sin, | |, digit
    groups, primes, dots, letters of a function name, element symbols, d x, operator digraphs, a token and a blank) as the complete
    child list of an element whose children have fixed roles (one sequence member per role) and of the wrappers that imply a row -
    alone, after 'x +' / 'H +', before '+ 2', between both, and directly after x / sin / 2.  A merge that is right in a row takes a child away from a fraction or a script here."""
    from terms import mi, mn, mo, mtext, row, el, T
    seqs = [("arc-sin", lambda: [mi("arc"), mi("sin")]), ("arc-cos-mtext", lambda: [mtext("arc\u00a0"), mi("cos")]), ("bars", lambda: [mo("|"), mo("|")]),
            ("digits", lambda: [mn("1"), mn("2")]), ("decimal", lambda: [mn("1"), mo("."), mn("5")]), ("grouped", lambda: [mn("1"), mo(","), mn("234")]),
            ("primes", lambda: [mo("\u2032"), mo("\u2032")]), ("apostrophes", lambda: [mo("'"), mo("'")]), ("dots", lambda: [mo("."), mo("."), mo(".")]), ("two-dots", lambda: [mo("."), mo(".")]),
            ("minus-minus", lambda: [mo("-"), mo("-")]), ("colon-eq", lambda: [mo(":"), mo("=")]), ("lt-eq", lambda: [mo("<"), mo("=")]), ("minus-gt", lambda: [mo("-"), mo(">")]),
            ("s-i-n", lambda: [mi("s"), mi("i"), mi("n")]), ("l-n", lambda: [mi("l"), mi("n")]), ("l-o-g", lambda: [mi("l"), mi("o"), mi("g")]),
            ("H-2", lambda: [mi("H"), mn("2")]), ("N-a", lambda: [mi("N"), mi("a")]), ("C-l", lambda: [mi("C"), mi("l")]), ("d-x", lambda: [mi("d"), mi("x")]),
            ("x-mspace", lambda: [mi("x"), T("mspace", width="1em")]), ("mspace-x", lambda: [T("mspace", width="1em"), mi("x")]), ("x-nbsp", lambda: [mi("x"), mtext("\u00a0")]),
            ("f-apply", lambda: [mi("f"), mo("\u2061")]), ("2-times", lambda: [mn("2"), mo("\u2062")]), ("I-I", lambda: [mi("I"), mi("I")]), ("ellipses", lambda: [mo("\u2026"), mo("\u2026")]),
            ("x-comma", lambda: [mi("x"), mo(",")]), ("minus-1", lambda: [mo("-"), mn("1")]), ("2-x", lambda: [mn("2"), mi("x")]), ("x-y-z", lambda: [mi("x"), mi("y"), mi("z")]),
            ("sin-x", lambda: [mi("sin"), mi("x")]), ("lim-x", lambda: [mi("lim"), mi("x")]), ("1-st", lambda: [mn("1"), mtext("st")]), ("x-bang", lambda: [mi("x"), mo("!")])]
    fixed = {2: ["mfrac", "msup", "msub", "mroot", "munder", "mover"], 3: ["msubsup", "munderover", "mmultiscripts"]}
    wrappers = ["msqrt", "mstyle", "mpadded", "menclose", "mtd", "mrow"]
    ctxs = [("alone", lambda e: e), ("x+", lambda e: row(mi("x"), mo("+"), e)), ("H+", lambda e: row(mi("H"), mo("+"), e)), ("+2", lambda e: row(e, mo("+"), mn("2"))),
            ("x+_+2", lambda e: row(mi("x"), mo("+"), e, mo("+"), mn("2"))), ("x_", lambda e: row(mi("x"), e)), ("sin_", lambda e: row(mi("sin"), e)), ("2_", lambda e: row(mn("2"), e))]
    out = []
    for sn, sf in seqs:
        for parent in fixed.get(len(sf()), []) + wrappers:
            for cn, cf in ctxs:
                inner = el(parent, *sf())
                if parent == "mtd":
                    inner = el("mtable", el("mtr", inner, el("mtd", mi("b"))))
                out.append((f"merge:{sn}:{parent}:{cn}", cf(inner)))
    return out


def _gen_cases(tier):
    out = []
    d0 = 2
    shapes = terms.spine_shapes(d0)
    for sh in shapes:
        out.append((terms.shape_name(sh), terms.build(sh, terms.Filler("mixed"))))
    for p in terms.sibling_pairs():
        out.append(("pair:" + "+".join(p), terms.build_pair(p, terms.Filler("mixed"))))
    for name, t in special_terms():
        out.append(("special:" + name, t))
    for name, t in escaping_terms():
        out.append((name, t))
    # every spine term next to a letter that is an element symbol - in the same row and in a neighbouring table cell: the chemistry
    # pass marks and un-marks what it finds there, and its clean-up runs on the finished tree
    from terms import mi as mi_, mo as mo_, row as row_, el as el_
    for sh in shapes:
        if sh is None:
            continue
        nm = terms.shape_name(sh)
        out.append(("chemctx-row:" + nm, row_(mi_("C"), mo_("="), terms.build(sh, terms.Filler("mixed")))))
        out.append(("chemctx-cells:" + nm, el_("mtable", el_("mtr", el_("mtd", mi_("C")), el_("mtd", mo_("=")), el_("mtd", terms.build(sh, terms.Filler("mixed")))))))
    # empty-base scripts ({}^2, {}_1, {}_1^2 - what TeX writes for a prescript) with every depth-1 term as the NEXT sibling and a leaf,
    # a scripted leaf, a fence or nothing after it; also two empty-base scripts in a row, and the script between a leaf and the term:
    # the search for "the base these scripts belong to" walks over the neighbours and the conversion then removes a range of siblings
    from terms import mi, mn, mo, mtext, row, el
    empties = [("sup", lambda: el("msup", el("mrow"), mn("8"))), ("sub", lambda: el("msub", el("mrow"), mn("7"))),
               ("subsup", lambda: el("msubsup", el("mrow"), mn("7"), mn("8"))), ("mi-sup", lambda: el("msup", mi(""), mn("8")))]
    tails = [("end", lambda: []), ("leaf", lambda: [mi("w")]), ("sleaf", lambda: [el("msub", mi("w"), mn("6"))]), ("op-leaf", lambda: [mo("+"), mi("w")]),
             ("empty-then-leaf", lambda: [el("msub", el("mrow"), mn("5")), mi("w")])]
    scripted = [s_ for s_ in terms.spine_shapes(2) if s_ is not None and s_[1] == 0 and s_[0] in ("sup", "sub", "subsup", "mpost", "mpre", "over", "under")]
    for sh in terms.spine_shapes(1) + scripted:       # + every depth-1 term as the BASE of a script element
        if sh is None:
            continue
        nm = terms.shape_name(sh)
        for en, ef in empties:
            for tn_, tf in tails:
                out.append((f"emptybase:{en}:{nm}:{tn_}", row(ef(), terms.build(sh, terms.Filler("mixed")), *tf())))
            out.append((f"emptybase:{en}:{nm}:after-leaf", row(mi("v"), ef(), terms.build(sh, terms.Filler("mixed")), mi("w"))))
            out.append((f"emptybase:{en}:{nm}:two", row(ef(), el("msub", el("mrow"), mn("5")), terms.build(sh, terms.Filler("mixed")), mi("w"))))
            out.append((f"emptybase:{en}:{nm}:behind", row(mi("v"), terms.build(sh, terms.Filler("mixed")), ef(), mi("w"))))
    # runs of two to four identical single-character tokens (the shapes the token-merging passes look for: blanks, primes, dots, digits,
    # letters, bars, dashes) in front of a leaf, a non-leaf element or nothing, and after nothing, a leaf or a non-leaf element
    toks = [("mi_", lambda: mi("_")), ("mo_", lambda: mo("_")), ("nbsp", lambda: mtext("\u00a0")), ("prime", lambda: mo("\u2032")), ("apos", lambda: mo("'")), ("dot", lambda: mo(".")),
            ("digit", lambda: mn("1")), ("letter", lambda: mi("x")), ("bar", lambda: mo("|")), ("minus", lambda: mo("-")), ("eq", lambda: mo("=")), ("text", lambda: mtext("a")),
            ("comma", lambda: mo(",")), ("bang", lambda: mo("!")), ("mi-dots", lambda: mi("."))]
    after = [("end", lambda: []), ("leaf", lambda: [mi("y")]), ("frac", lambda: [el("mfrac", mn("1"), mn("2"))]), ("sup", lambda: [el("msup", mi("y"), mn("2"))]),
             ("sqrt", lambda: [el("msqrt", mi("y"))]), ("row", lambda: [row(mi("a"), mo("+"), mi("b"))])]
    before = [("start", lambda: []), ("leaf", lambda: [mn("7"), mo("=")]), ("frac", lambda: [el("mfrac", mn("3"), mn("4"))])]
    for tn, tk in toks:
        for n in (2, 3, 4):
            for bn, bf in before:
                for an, af in after:
                    out.append((f"run:{tn}x{n}:{bn}:{an}", row(*(bf() + [tk() for _ in range(n)] + af()))))
    # the same tokens NOT adjacent: separated by single operands (leaf and non-leaf), three and four occurrences, starting with the
    # token or with an operand - counters that are kept across siblings show here
    opers = [lambda: mi("a"), lambda: mn("2"), lambda: el("mfrac", mn("1"), mn("2")), lambda: el("msqrt", mi("y")), lambda: mi("c"), lambda: el("msup", mi("z"), mn("2"))]
    for tn, tk in toks:
        for n in (3, 4):
            for first in ("tok", "oper"):
                for shift in (0, 2):
                    kids = []
                    for i in range(n):
                        o = opers[(i + shift) % len(opers)]()
                        kids += [tk(), o] if first == "tok" else [o, tk()]
                    out.append((f"alt:{tn}x{n}:{first}:{shift}", row(*kids)))
    # a token whose WHOLE text is one special character (signs, dashes, dots, quotes, bars, blanks, digits-like) in every token kind,
    # alone, between operands and in a slot of a 2-D element
    specials_ = ["-", "\u2212", "\u2013", "\u2010", "+", "\u00b1", ".", ",", ";", ":", "'", "\u2032", "\"", "|", "\u2016", "_", "\u00a0", "\u2026", "\u22ef", "%", "\u00b0", "/", "\u2215",
                 "\u2044", "!", "=", "(", ")", "[", "]", "\u2061", "\u2062", "\u221e", "\u00bd", "\u2162", "0", "x", "\u03c0"]
    for c in specials_:
        for kind in ("mi", "mn", "mo", "mtext"):
            tkn = lambda: terms.T(kind, text=c)
            out.append((f"lone:U+{ord(c):04X}:{kind}:alone", row(tkn())))
            out.append((f"lone:U+{ord(c):04X}:{kind}:between", row(mi("x"), tkn(), mn("3"))))
            out.append((f"lone:U+{ord(c):04X}:{kind}:numerator", el("mfrac", tkn(), mn("2"))))
            out.append((f"lone:U+{ord(c):04X}:{kind}:exponent", el("msup", mi("x"), tkn())))
    # the same characters MIXED with ordinary text inside one token (f', y″z, ′+, 2., x|, a-b, …): the passes that look for these
    # characters test "contains", so a token that merely contains one reaches code written for tokens that consist of them -
    # alone, between operands, and directly after a token that consists of the character
    for c in specials_:
        if c in "0xπ":
            continue
        for kind in ("mi", "mn", "mo", "mtext"):
            for pn, txt in (("pre", c + "z"), ("post", "f" + c), ("mid", "y" + c + "z"), ("post2", "f" + c + c), ("digit", "4" + c)):
                tkn = lambda: terms.T(kind, text=txt)
                out.append((f"mixed:U+{ord(c):04X}:{kind}:{pn}:alone", row(tkn())))
                out.append((f"mixed:U+{ord(c):04X}:{kind}:{pn}:between", row(mi("x"), mo("+"), tkn(), mo("="), mn("3"))))
                out.append((f"mixed:U+{ord(c):04X}:{kind}:{pn}:after-same", row(mi("x"), terms.T("mo", text=c), tkn())))
                out.append((f"mixed:U+{ord(c):04X}:{kind}:{pn}:exponent", el("msup", mi("x"), tkn())))
    out += merge_cases()
    out += test_cases()
    # level 1: one deviation at every position
    dev_shapes = terms.spine_shapes(1) if tier == "quick" else terms.spine_shapes(2)
    for sh in dev_shapes:
        base = terms.build(sh, terms.Filler("mixed"))
        for dl, dt in terms.deviations(base):
            out.append((terms.shape_name(sh) + "|" + dl, dt))
    for name, t in special_terms():
        for dl, dt in terms.deviations(t):
            if tier == "thorough" or dl.split("@")[0] in ("empty-mrow", "empty-mi", "delete", "mspace", "wrap-mstyle", "wrap-mrow", "none", "dup"):
                out.append(("special:" + name + "|" + dl, dt))
    if tier == "thorough":
        # level 2 on depth-1 constructs: two deviations
        for sh in terms.spine_shapes(1):
            base = terms.build(sh, terms.Filler("mixed"))
            for dl, dt in terms.deviations(base):
                if dl.split("@")[0] not in ("empty-mrow", "empty-mi", "empty-mo", "delete", "dup", "mspace", "wrap-mrow", "none", "mprescripts", "wrap-mstyle", "mphantom"):
                    continue
                for dl2, dt2 in terms.deviations(dt):
                    if dl2.split("@")[0] in ("empty-mrow", "empty-mn", "delete", "dup", "wrap-mrow", "wrap-mpadded", "none", "nbsp-mtext", "attr-intent", "attr-mathvariant"):
                        out.append((terms.shape_name(sh) + "|" + dl + "|" + dl2, dt2))
    return out


def confirm_for(prop):
    def confirm(replay, verbose=False):
        mc = mcx.Mc()
        old = mcx._worker_mc
        mcx._worker_mc = mc
        try:
            t = terms.parse_xml(replay["doc"]).kids[0]
            if replay.get("surface"):
                v, _, _ = work_surface((prop, replay["locale"], [(replay["label"], t, replay["surface"])]))
            else:
                v, _, _ = work((prop, replay["locale"], [(replay["label"], t)]))
        finally:
            mcx._worker_mc = old
            mc.close()
        if verbose:
            for k, w, _ in v:
                print(" ", k, "—", w)
        return {k for k, _, _ in v}
    return confirm


def main(prop, tier):
    run = Run(prop, tier, "exploration")
    cases = gen_cases(tier)
    run.count("distinct_terms", len(cases))
    jobs = []
    for loc in LOCALES:
        for i in range(0, len(cases), 500):
            jobs.append((prop, loc, cases[i:i + 500]))
    # determinism gate
    outs = []
    for _ in range(2):
        mcx._worker_mc = mcx.Mc()
        outs.append(json.dumps(work((prop, "US", cases[:150])), sort_keys=True, ensure_ascii=False))
        mcx._worker_mc.close()
        mcx._worker_mc = None
    if outs[0] != outs[1]:
        print(f"MACHINERY-ERROR property={prop}: determinism gate failed")
        return 2
    for i in (5, len(cases) // 2, len(cases) - 7):
        run.sample({"label": cases[i][0], "input": terms.doc(cases[i][1])})
    if prop == "C01":
        l0 = [c for c in cases if "|" not in c[0]]
        l0 = l0 if tier == "thorough" else l0[::3]
        sc = [(label, t, sf) for label, t in l0 for sf in SURFACES]
        run.count("surface_cases", len(sc))
        for i in range(0, len(sc), 1500):
            jobs.append(("SURFACE", prop, "US", sc[i:i + 1500]))
    for viol, counts, nontriv in mcx.pmap(_dispatch, jobs):
        run.merge_violations(viol)
        run.merge_counts(counts)
        for h in nontriv:
            run.nontriv(h)
    rule = ("level 0: all spine terms of grammar G (39 constructs) to nesting depth 2, all sibling pairs of depth-1 constructs in 3 row contexts, "
            "%d hand-listed normalisation-trigger terms, escaping family; level 1: every single deviation (14 degenerate atoms, delete, duplicate, "
            "6 wrappers, 9 attributes) at every node of every %s term and of the trigger terms%s; x 3 separator locales (US, EU, de-CH). "
            % (len(special_terms()), "depth-1" if tier == "quick" else "depth-2", "" if tier == "quick" else "; level 2: pairs of deviations on depth-1 terms"))
    if prop == "C01":
        rule += ("Serialisations: " + ("every" if tier == "thorough" else "every third") + " level-0 term x %d surface forms (MathJax v2/v3 class attributes on all / first and last / token "
                 "elements, other attributes, m: namespace prefix, one element per line). " % len(SURFACES))
        rule += "distinct_nontrivial = distinct (normalised visible text, shape label) pairs among accepted inputs"
    else:
        rule += "distinct_nontrivial = distinct returned trees (ids stripped)"
    return run.finish(rule=rule,
                      assumptions=["inputs on which set_mathml panics are counted as skipped_panics here and reported by C08",
                                   "the visible-text extractor and normalisation classes are those of DESIGN Appendix A.1"],
                      confirm=confirm_for(prop))
