"""Shared run bookkeeping: counters, violations, known findings, replay files, evidence."""
import hashlib, json, os, re, sys, time

VERIF = os.path.dirname(os.path.dirname(os.path.abspath(__file__)))
EVIDENCE_DIR = os.path.join(VERIF, "evidence")
REPLAY_DIR = os.path.join(VERIF, "replays")
KNOWN = os.path.join(VERIF, "known_findings.json")

_ID_RE = re.compile(r"M[0-9a-z]{7}-(\d+)")


def norm_ids(s):
    """Generated ids carry a time+random prefix; normalise it away (author ids use other alphabets)."""
    if isinstance(s, str):
        return _ID_RE.sub(r"G-\1", s)
    if isinstance(s, list):
        return [norm_ids(x) for x in s]
    return s


def is_ok(r): return r and r[0] == "o"
def is_err(r): return r and r[0] == "e"
def is_panic(r): return r and r[0] in ("p", "abort", "timeout")
def val(r): return r[1] if r and r[0] == "o" else None


def short(x, n=300):
    s = x if isinstance(x, str) else json.dumps(x, ensure_ascii=False)
    return s if len(s) <= n else s[:n] + "…"


def diffshow(a, b, ctx=40):
    """The first differing region of two strings, for violation messages."""
    if not isinstance(a, str) or not isinstance(b, str):
        return f"{short(a, 120)} vs {short(b, 120)}"
    i = 0
    n = min(len(a), len(b))
    while i < n and a[i] == b[i]:
        i += 1
    lo = max(0, i - ctx // 2)
    return f"…{a[lo:i + ctx]!r} vs …{b[lo:i + ctx]!r} (first difference at char {i})"


class MachineryError(Exception):
    pass


def load_known(prop):
    if not os.path.exists(KNOWN):
        return {}
    data = json.load(open(KNOWN, encoding="utf-8"))
    return {f["key"]: f for f in data.get("findings", []) if f.get("property") == prop}


class Run:
    def __init__(self, prop, tier, level):
        self.prop, self.tier, self.level = prop, tier, level
        self.t0 = time.time()
        self.counters = {}
        self.viol = {}          # key -> {"what","replay","count"}
        self.samples = []
        self.nontrivial = set()
        self.notes = []
        self.seed = int(os.environ.get("VERIF_SEED", "0") or 0)
        self.exhaustive = True
        self.budget_s = None

    # ---- counters -------------------------------------------------------------------------
    def count(self, name, n=1):
        self.counters[name] = self.counters.get(name, 0) + n

    def merge_counts(self, d):
        for k, v in d.items():
            self.count(k, v)

    def sample(self, s, cap=8):
        if len(self.samples) < cap:
            self.samples.append(s)

    def nontriv(self, h):
        self.nontrivial.add(h)

    def elapsed(self):
        return time.time() - self.t0

    # ---- violations -----------------------------------------------------------------------
    def violation(self, key, what, replay):
        v = self.viol.get(key)
        if v is None:
            self.viol[key] = {"what": what, "replay": replay, "count": 1}
        else:
            v["count"] += 1
            # keep the smallest witness
            if len(json.dumps(replay)) < len(json.dumps(v["replay"])):
                v["what"], v["replay"] = what, replay

    def merge_violations(self, lst):
        for key, what, replay in lst:
            self.violation(key, what, replay)

    # ---- finish ---------------------------------------------------------------------------
    def finish(self, rule, coverage_extra=None, assumptions=None, confirm=None):
        """Write evidence, print verdict lines, return the exit code.
        `confirm(replay) -> set of keys` re-executes one witness from scratch (fresh executor)."""
        known = load_known(self.prop)
        new, listed = [], []
        for key, v in sorted(self.viol.items()):
            (listed if key in known else new).append((key, v))
        # every reported violation must reproduce from scratch before it is believed
        unstable = []
        if confirm is not None:
            for key, v in new[:40]:
                try:
                    again = confirm(v["replay"])
                except Exception as e:  # machinery problem, not a verdict
                    again = None
                    self.notes.append(f"confirm failed for {key}: {e!r}")
                if again is None or key not in again:
                    unstable.append(key)
        os.makedirs(EVIDENCE_DIR, exist_ok=True)
        cov = {
            "evaluations": int(self.counters.get("evaluations", 0)),
            "distinct_nontrivial": len(self.nontrivial),
            "rule": rule,
            "samples": self.samples[:8],
            "exhaustive": bool(self.exhaustive),
            "counters": self.counters,
            "known_findings_seen": [k for k, _ in listed],
            "new_violation_keys": [k for k, _ in new][:400],
        }
        if coverage_extra:
            cov.update(coverage_extra)
        if self.notes:
            cov["notes"] = self.notes
        ev = {
            "property_id": self.prop, "tier": self.tier, "seed": self.seed, "level": self.level,
            "coverage": cov, "assumptions": assumptions or [], "wall_s": round(self.elapsed(), 2),
            "violations": len(new),
        }
        with open(os.path.join(EVIDENCE_DIR, f"{self.prop}.json"), "w", encoding="utf-8") as f:
            json.dump(ev, f, ensure_ascii=False, indent=1)
        for key, v in listed:
            w = " ".join(str(known[key].get("what", v["what"])).split())
            print(f"KNOWN-FINDING: property={self.prop} {short(w, 260)} [key={key}; {v['count']} case(s) this run]")
        if unstable:
            print(f"MACHINERY-ERROR property={self.prop}: violation(s) did not reproduce from scratch: {unstable[:5]}")
            return 2
        code = 0
        import shutil
        shutil.rmtree(os.path.join(REPLAY_DIR, self.prop), ignore_errors=True)   # replays always describe the last run only
        if new:
            os.makedirs(os.path.join(REPLAY_DIR, self.prop), exist_ok=True)
            for i, (key, v) in enumerate(new[:400]):
                h = hashlib.sha1(key.encode("utf-8")).hexdigest()[:12]
                path = os.path.join(REPLAY_DIR, self.prop, h + ".json")
                with open(path, "w", encoding="utf-8") as f:
                    json.dump({"property": self.prop, "key": key, "what": v["what"], "count": v["count"],
                               "replay": v["replay"]}, f, ensure_ascii=False, indent=1)
                if i < 25:
                    print(f"VIOLATION property={self.prop} replay={path}")
                    print(f"   key={key}  ({v['count']} case(s))  {short(' '.join(str(v['what']).split()), 400)}")
            if len(new) > 25:
                print(f"   … and {len(new) - 25} more distinct violation keys")
            code = 1
        ex = "exhaustive within the stated bounds" if self.exhaustive else "NOT exhaustive (cap hit; see evidence)"
        print(f"{self.prop} {self.tier}: evaluations={cov['evaluations']} distinct_nontrivial={cov['distinct_nontrivial']} "
              f"new_violations={len(new)} known={len(listed)} wall={ev['wall_s']}s; {ex}")
        return code


def determinism_gate(run_once, what="gate"):
    """Run the same slice twice (two different executor processes / threads); observations must be
    byte-identical after id normalisation."""
    a = run_once()
    b = run_once()
    if json.dumps(a, sort_keys=True, ensure_ascii=False) != json.dumps(b, sort_keys=True, ensure_ascii=False):
        raise MachineryError(f"determinism gate failed ({what}): two executions of the same slice differ")
    return a
