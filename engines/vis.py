"""Visible-text extractor `vis` and many-to-one normalisation `N` (DESIGN Appendix A.1).
The same functions are applied to the input term and to the parsed output of the library."""
import re, unicodedata as ud

TOKENS = ("mi", "mn", "mo", "mtext", "ms")
INVISIBLE_TAGS = ("mphantom", "annotation", "annotation-xml", "mspace", "malignmark", "maligngroup", "none", "mprescripts")


def all_text(t):
    """text of a token including embedded non-MathML children (html in tokens) and mglyph alt"""
    out = []
    if t.text:
        out.append(t.text)
    for k in t.kids:
        if k.tag == "mglyph":
            out.append(k.attrs.get("alt", ""))
        else:
            out.append(all_text(k))
    return "".join(out)


def is_placeholder(t):
    """content the library marks as invented by itself to repair the tree"""
    a = t.attrs
    return (a.get("data-added") == "missing-content" or a.get("data-changed") == "empty_content"
            or "data-was-mspace" in a or a.get("data-empty-in-2D") == "true")


def vis(t, output=False):
    """reading-order list of the visible token texts of term t"""
    out = []
    _vis(t, out, output)
    return out


def _vis(t, out, output):
    tag = t.tag
    if tag in INVISIBLE_TAGS:
        return
    if output and tag in TOKENS and is_placeholder(t):
        return
    if tag in TOKENS:
        s = all_text(t)
        if s.strip():
            out.append(s)
        return
    if tag == "semantics":
        if not t.kids:
            return
        first = t.kids[0]
        if first.tag not in ("annotation", "annotation-xml"):
            _vis(first, out, output)
            return
        for k in t.kids:
            if k.tag == "annotation-xml" and k.attrs.get("encoding", "").lower() in ("mathml-presentation", "application/mathml-presentation+xml"):
                for kk in k.kids:
                    _vis(kk, out, output)
                return
        return
    if tag == "mfenced":
        op = t.attrs.get("open", "(")
        cl = t.attrs.get("close", ")")
        seps = t.attrs.get("separators", ",")
        seps = [c for c in seps if not c.isspace()]
        if op.strip():
            out.append(op)
        for i, k in enumerate(t.kids):
            if i > 0 and seps:
                out.append(seps[min(i - 1, len(seps) - 1)])
            _vis(k, out, output)
        if cl.strip():
            out.append(cl)
        return
    if tag == "mmultiscripts":
        idx = next((i for i, k in enumerate(t.kids) if k.tag == "mprescripts"), None)
        if idx is not None:
            for k in t.kids[idx + 1:]:
                _vis(k, out, output)
            for k in t.kids[:idx]:
                _vis(k, out, output)
            return
    for k in t.kids:
        _vis(k, out, output)


BAR_CLASS = set("-−‐‑‒–—―_¯ˉ̲̄̅‾")
PRIMES = {"'": 1, "′": 1, "″": 2, "‴": 3, "⁗": 4, "ʹ": 1, "ʺ": 2}
EQUIV = {
    "∶": ":", "∷": "::", "…": "...", "⋯": "...", "‖": "||", "∥": "||",
    "˜": "~", "̃": "~", "∼": "~", "ˆ": "^", "̂": "^", "˙": ".", "̇": ".", "¨": "..", "̈": "..", "⃛": "...", "⃜": "....",
    "‵": "`", "ˋ": "`", "̀": "`", "´": "ˊ", "́": "ˊ", "ˇ": "ˇ", "̌": "ˇ", "˘": "˘", "̆": "˘", "⃗": "→", "⟶": "→",
    "〈": "<", "〉": ">", "〈": "<", "〉": ">", "⟨": "<", "⟩": ">", "ʼ": "`",
    # circle-like characters in a superscript become the degree sign (canonicalize_mo_text: "circle-like objects -> degree")
    "\u00ba": "°", "\u2092": "°", "\u20d8": "°", "\u2218": "°",
}
_DASH_TOKEN = re.compile(r"^-{2,4}$")


def norm_char(c):
    o = ord(c)
    if c in BAR_CLASS:
        return "-"
    if c in PRIMES:
        return "′" * PRIMES[c]
    if c in EQUIV:
        return EQUIV[c]
    if 0x1D400 <= o <= 0x1D7FF or 0x2100 <= o <= 0x214F:
        d = ud.normalize("NFKD", c)
        return d
    return c


def N(tokens, input_side=False):
    """normalised character sequence of a list of token texts"""
    out = []
    for s in tokens:
        if _DASH_TOKEN.match(s.strip()):
            s = "-"
        for c in s:
            if c.isspace() or c in "⁡⁢⁣⁤​" or c in " " or c in "\ufeff\u200c\u200d\u2060":
                continue
            out.append(norm_char(c))
    return "".join(out)
