"""C06 — braille renders every operand of the expression.
Space: the planted-literal terms of C04 x the braille codes the statement names x code preferences.
Oracle: per literal, its cell run (digit cells + decimal cell; verbatim for the text codes) occurs as a
contiguous run in the braille at least as often as the literal occurs in the expression.  The cell run
is obtained from the bare <mn> in the same configuration and validated against hard-coded digit tables."""
import json, re
from common import Run, is_ok, is_err, is_panic, val, short
import terms, mcx
from props import c04

UPPER = dict(zip("1234567890", "⠁⠃⠉⠙⠑⠋⠛⠓⠊⠚"))
LOWER = dict(zip("1234567890", "⠂⠆⠒⠲⠢⠖⠶⠦⠔⠴"))
# code -> (language, decimal mark in the input, digit table, decimal cell(s) accepted)
CODES = {
    "Nemeth":    ("en", ".", LOWER, ["⠨"]),
    "UEB":       ("en", ".", UPPER, ["⠲"]),
    "CMU":       ("es", ",", UPPER, ["⠂"]),
    "Vietnam":   ("vi", ",", UPPER, ["⠂"]),
    "LaTeX":     ("en", ".", None, None),
    "ASCIIMath": ("en", ".", None, None),
}
CODE_PREFS = {
    "Nemeth": [[]],
    "UEB": [[], [["pref", "UEB_StartMode", "Grade1"]], [["pref", "UEB_UseSpacesAroundAllOperators", "true"]]],
    "CMU": [[]],
    "Vietnam": [[], [["pref", "Vietnam_UseDropNumbers", "true"]]],
    "LaTeX": [[], [["pref", "LaTeX_UseShortName", "true"]]],
    "ASCIIMath": [[], [["pref", "UseSpacesAroundAllOperators", "true"]]],
}


def unhighlight(s):
    """mask dots 7-8"""
    return "".join(chr(0x2800 + ((ord(c) - 0x2800) & 0x3F)) if 0x2800 <= ord(c) <= 0x28FF else c for c in s)


def table_run(lit, mark, table, dec):
    return ["".join(table[c] if c.isdigit() else d for c in lit) for d in dec]


def work(item):
    code, prefs, cases = item[:3]
    mode = item[3] if len(item) > 3 else "num"
    mc = mcx.worker_mc()
    lang, mark, table, dec = CODES[code]
    setup = [["rules_dir", mcx.RULES], ["pref", "TTS", "none"], ["pref", "Language", lang], ["pref", "BrailleCode", code],
             ["pref", "BrailleNavHighlight", "Off"]] + prefs
    pk = json.dumps(prefs) + ("" if mode == "num" else "#" + mode)
    viol, counts, nontriv = [], {"evaluations": 0, "skipped_panics": 0, "rejected": 0, "literals_checked": 0, "braille_errors_left_to_C15": 0}, []
    # reference cell runs from the bare literal, validated against the digit tables
    ck = (code, pk)
    if ck not in _REF:
        lits = [x.replace(".", mark) for x in terms.Filler.NUMS] if mode == "num" else list(terms.Filler.INTS)
        _, r = mc.run_cases(setup, [[["mathml", f"<math><mn>{l}</mn></math>"], ["braille", ""]] for l in lits])
        ref = {}
        for l, x in zip(lits, r):
            if not is_ok(x[1]):
                viol.append((f"C06|{code}|bare-number-fails", f"[{code}] braille of the bare number {l} failed: {short(x[1], 160)}", {"code": code, "prefs": prefs, "label": "bare", "shape": None}))
                continue
            b = unhighlight(val(x[1]))
            if table is None:
                core = b.strip()
                if l not in core:
                    viol.append((f"C06|{code}|bare-number-wrong", f"[{code}] the bare number {l} is rendered {b!r}", {"code": code, "prefs": prefs, "label": "bare", "shape": None}))
                ref[l] = [l]
            else:
                runs = table_run(l, mark, table, dec)
                if not any(run in b for run in runs):
                    viol.append((f"C06|{code}|bare-number-wrong", f"[{code}] the bare number {l} is rendered {b!r}, expected the cells {runs[0]!r}", {"code": code, "prefs": prefs, "label": "bare", "shape": None}))
                ref[l] = list(runs)
                if code in ("CMU", "Vietnam"):
                    # simple numeric fractions legitimately drop the digits to the lower cells
                    ref[l] += table_run(l, mark, LOWER, dec)
        # which slots are already missing when the construct stands alone
        alone = set()
        d1 = []
        for name, slots, _ in terms.CONSTRUCTS + terms.EXTRA_CONSTRUCTS:
            f = terms.Filler(mode, mark)
            d1.append((name, terms.build((name, None, None), f), list(f.planted)))
        _, r1 = mc.run_cases(setup, [[["mathml", terms.doc(t)], ["braille", ""]] for _, t, _ in d1])
        for (name, t, planted), x in zip(d1, r1):
            if is_ok(x[0]) and is_ok(x[1]):
                b = unhighlight(val(x[1]))
                need = c04.literal_counts(planted)
                for k, lit in enumerate(planted):
                    if lit in ref and max(b.count(run) for run in ref[lit]) < need[lit]:
                        alone.add(c04.site_of((name, None, None), k))
        _REF[ck] = (ref, alone)
    ref, alone = _REF[ck]
    built = []
    for label, sh in cases:
        f = terms.Filler(mode, mark)
        t = terms.build(sh, f)
        built.append((label, sh, t, list(f.planted)))
    _, res = mc.run_cases(setup, [[["mathml", terms.doc(t)], ["braille", ""]] for _, _, t, _ in built])
    for (label, sh, t, planted), r in zip(built, res):
        counts["evaluations"] += 1
        if is_panic(r[0]) or is_panic(r[1]):
            counts["skipped_panics"] += 1
            continue
        if not is_ok(r[0]):
            counts["rejected"] += 1
            continue
        if not is_ok(r[1]):
            counts["braille_errors_left_to_C15"] += 1
            continue
        b = unhighlight(val(r[1]))
        nontriv.append(hash((code, pk, b)))
        need = c04.literal_counts(planted)
        replay = {"code": code, "prefs": prefs, "label": label, "shape": sh, "mode": mode}
        for k, lit in enumerate(planted):
            if lit not in ref:
                continue
            counts["literals_checked"] += 1
            got = max(b.count(run) for run in ref[lit])
            if got < need[lit]:
                site = c04.site_of(sh, k)
                chain = c04.parent_of(sh, k)
                dead = [a for a in chain.split(">") if a in alone]
                if site in alone:
                    ctx = "context-free"
                elif dead:
                    site, ctx = dead[0], "context-free"
                else:
                    ctx = "under:" + chain
                pn = "+".join(p[1] for p in prefs) or "default"
                viol.append((f"C06|{code}|{pn}{'' if mode == 'num' else '|' + mode}|missing@{site}|{ctx}", f"[{code} {pn}] {label}: literal {lit} (operand {site}) has no cell run {ref[lit][0]!r} in {b!r}", replay))
    return viol, counts, nontriv


def work_walk(item):
    """the SAME stored expression brailled under code A and then, without a new set_mathml, under code B: every literal must still be
    rendered under B (a getter that rewrites the stored expression for its own code shows here and nowhere else)"""
    a_code, b_code, cases = item
    mc = mcx.worker_mc()
    lang, mark, table, dec = CODES[b_code]
    work((b_code, [], []))                  # reference cell runs of B (fresh sessions)
    ref, alone = _REF[(b_code, "[]")]
    setup = [["rules_dir", mcx.RULES], ["pref", "TTS", "none"], ["pref", "Language", lang], ["pref", "BrailleNavHighlight", "Off"]]
    built = []
    for label, sh in cases:
        f = terms.Filler("num", mark)
        t = terms.build(sh, f)
        built.append((label, sh, t, list(f.planted)))
    ops = [[["pref", "BrailleCode", a_code], ["mathml", terms.doc(t)], ["braille", ""], ["pref", "BrailleCode", b_code], ["braille", ""],
            ["pref", "BrailleCode", a_code], ["braille", ""], ["pref", "BrailleCode", b_code], ["mathml", terms.doc(t)], ["braille", ""]] for _, _, t, _ in built]
    _, res = mc.run_cases(setup, ops)
    # the yardstick: the same expressions in a session that has only ever used code B
    _, res_b = mc.run_cases(setup + [["pref", "BrailleCode", b_code]], [[["mathml", terms.doc(t)], ["braille", ""]] for _, _, t, _ in built])
    viol, counts, nontriv = [], {"evaluations": 0, "skipped_panics": 0, "rejected": 0, "literals_checked": 0, "braille_errors_left_to_C15": 0}, []
    for (label, sh, t, planted), r, rb in zip(built, res, res_b):
        counts["evaluations"] += 1
        if any(is_panic(x) for x in r) or any(is_panic(x) for x in rb):
            counts["skipped_panics"] += 1
            continue
        if not is_ok(r[1]):
            counts["rejected"] += 1
            continue
        if not is_ok(r[4]) or not is_ok(r[9]) or not is_ok(rb[1]):
            counts["braille_errors_left_to_C15"] += 1
            continue
        b, again, fresh = unhighlight(val(r[4])), unhighlight(val(r[9])), unhighlight(val(rb[1]))
        nontriv.append(hash((a_code, b_code, b)))
        need = c04.literal_counts(planted)
        replay = {"walk": [a_code, b_code], "label": label, "shape": sh}
        for k, lit in enumerate(planted):
            if lit not in ref:
                continue
            counts["literals_checked"] += 1
            # judged only where a session that never left B does render the literal (anything else is the first family's business)
            if max(fresh.count(run) for run in ref[lit]) < need[lit]:
                continue
            if max(b.count(run) for run in ref[lit]) < need[lit]:
                viol.append((f"C06|{b_code}|after:{a_code}|missing", f"[{a_code} then {b_code}, same stored expression] {label}: literal {lit} has no cell run {ref[lit][0]!r} in {b!r} "
                             f"(in a session that only used {b_code}: {fresh!r})", replay))
                break
            if max(again.count(run) for run in ref[lit]) < need[lit]:
                viol.append((f"C06|{b_code}|after:{a_code}|missing-after-new-set_mathml", f"[{a_code}, {b_code}, {a_code}, then {b_code} with a new set_mathml] {label}: literal {lit} has no cell run {ref[lit][0]!r} in {again!r} "
                             f"(in a session that only used {b_code}: {fresh!r})", replay))
                break
    return viol, counts, nontriv


def work_digits(item):
    """every digit in every numeric operand slot of every construct (depth 1): the literal's cell run - upper or lowered digit table,
    validated against the bare <mn> - must be in the braille"""
    code, prefs = item[:2]
    special = len(item) > 2 and item[2] == "special"
    mc = mcx.worker_mc()
    lang, mark, table, dec = CODES[code]
    setup = [["rules_dir", mcx.RULES], ["pref", "TTS", "none"], ["pref", "Language", lang], ["pref", "BrailleCode", code], ["pref", "BrailleNavHighlight", "Off"]] + prefs
    built = []
    for name, slots, _ in terms.CONSTRUCTS + terms.EXTRA_CONSTRUCTS:
        probe = terms.Filler("int")
        terms.build((name, None, None), probe)
        for k in range(len(probe.planted)):
            if special:
                # decimals that are numerically a small integer or a half, and an ordinary decimal as the witness that the slot is rendered at all
                for lit in c04.SPECIAL_LITERALS + ["16.8"]:
                    f = terms.SpecialFiller(k, lit, mark)
                    t = terms.build((name, None, None), f)
                    built.append((name, k, lit, t, list(f.planted)))
                continue
            for dgt in range(10):
                f = terms.DigitFiller(k, dgt)
                t = terms.build((name, None, None), f)
                built.append((name, k, dgt, t, list(f.planted)))
    lits = sorted({l for b in built for l in b[4]})
    _, rb = mc.run_cases(setup, [[["mathml", f"<math><mn>{l}</mn></math>"], ["braille", ""]] for l in lits])
    ref = {}
    for l, x in zip(lits, rb):
        if table is None:
            ref[l] = [l]
        else:
            ref[l] = table_run(l, mark, table, dec) + table_run(l, mark, LOWER, dec)
            if is_ok(x[1]) and not any(run in unhighlight(val(x[1])) for run in ref[l]):
                ref[l] = None            # the bare number itself is off: family 1 reports that
    _, res = mc.run_cases(setup, [[["mathml", terms.doc(t)], ["braille", ""]] for _, _, _, t, _ in built])
    viol, counts, nontriv = [], {"evaluations": 0, "skipped_panics": 0, "rejected": 0, "literals_checked": 0, "braille_errors_left_to_C15": 0}, []
    # a slot whose literal is missing for EVERY digit is the context-free loss family 1 already reports (e.g. a shape sign replacing the content)
    hits = {}
    for (name, k, dgt, t, planted), r in zip(built, res):
        counts["evaluations"] += 1
        if not (is_ok(r[0]) and is_ok(r[1])):
            counts["braille_errors_left_to_C15"] += 1
            continue
        b = unhighlight(val(r[1]))
        nontriv.append(hash((code, "digits", b)))
        lit = planted[k]
        if ref.get(lit) is None:
            continue
        counts["literals_checked"] += 1
        hits.setdefault((name, k), {})[dgt] = (max(b.count(run) for run in ref[lit]) >= 1, b, lit)
    for (name, k), per in hits.items():
        bad = [d_ for d_, (ok, _, _) in per.items() if not ok]
        if bad and len(bad) < len(per):
            d_ = bad[0]
            _, b, lit = per[d_]
            if special:
                for d_ in bad:
                    _, b, lit = per[d_]
                    viol.append((f"C06|{code}|special-literal|{name}.{k}|{d_}", f"[{code}] {name}: the literal {lit} in operand {k} has no cell run (upper {ref[lit][0]!r} or lowered {ref[lit][-1]!r}) in {b!r}, "
                                 f"while {sorted(set(per) - set(bad))} are rendered there", {"digits": "special", "code": code, "prefs": prefs, "label": name, "shape": None}))
                continue
            viol.append((f"C06|{code}|digit|{name}.{k}", f"[{code}] {name}: the literal {lit} in operand {k} has no cell run (upper {ref[lit][0]!r} or lowered {ref[lit][-1]!r}) in {b!r}, "
                         f"while the literals starting with the digits {sorted(set(per) - set(bad))} are rendered there (digits affected: {bad})",
                         {"digits": True, "code": code, "prefs": prefs, "label": name, "shape": None}))
    return viol, counts, nontriv


def _dispatch(job):
    if job[0] == "G":
        return work_digits(job[1:])
    return work_walk(job[1:]) if job[0] == "W" else work(job)


_REF = {}


def confirm(replay, verbose=False):
    mc = mcx.Mc()
    old = mcx._worker_mc
    mcx._worker_mc = mc
    _REF.clear()
    try:
        cases = [] if replay["shape"] is None else [(replay["label"], c04._tup(replay["shape"]))]
        if replay.get("digits"):
            v, _, _ = work_digits((replay["code"], replay["prefs"]) + (("special",) if replay["digits"] == "special" else ()))
            v = [x for x in v if x[2]["label"] == replay["label"]]
        elif "walk" in replay:
            v, _, _ = work_walk((replay["walk"][0], replay["walk"][1], cases))
        else:
            v, _, _ = work((replay["code"], replay["prefs"], cases, replay.get("mode", "num")))
    finally:
        mcx._worker_mc = old
        mc.close()
        _REF.clear()
    if verbose:
        for k, w, _ in v:
            print(" ", k, "—", w)
    return {k for k, _, _ in v}


def main(tier):
    run = Run("C06", tier, "exploration")
    shapes, deep, deep4 = c04.corpus(tier)
    jobs = []
    for code in CODES:
        for prefs in CODE_PREFS[code]:
            cs = list(shapes)
            if tier == "thorough" or code in ("Nemeth", "UEB", "LaTeX"):
                cs += deep
            if tier == "thorough":
                cs += deep4
            for i in range(0, len(cs), 900):
                jobs.append((code, prefs, cs[i:i + 900]))
            # the same spine terms with INTEGER literals (every digit in every place): lowered digits, ordinals, indicator-free subscripts
            ci = list(shapes)
            for i in range(0, len(ci), 900):
                jobs.append((code, prefs, ci[i:i + 900], "int"))
    for code in CODES:
        for prefs in CODE_PREFS[code]:
            jobs.append(("G", code, prefs))
            jobs.append(("G", code, prefs, "special"))
    wshapes = list(shapes) if tier == "thorough" else list(shapes[::3])
    run.count("code_walk_shapes", len(wshapes))
    for a in CODES:
        for b_ in CODES:
            if a != b_:
                for i in range(0, len(wshapes), 450):
                    jobs.append(("W", a, b_, wshapes[i:i + 450]))
    outs = []
    for _ in range(2):
        mcx._worker_mc = mcx.Mc()
        _REF.clear()
        outs.append(json.dumps(work(("CMU", [], shapes[:80])), sort_keys=True, ensure_ascii=False))
        mcx._worker_mc.close()
        mcx._worker_mc = None
    _REF.clear()
    if outs[0] != outs[1]:
        print("MACHINERY-ERROR property=C06: determinism gate failed")
        return 2
    f = terms.Filler("num", ".")
    run.sample({"config": "UEB Grade1", "label": deep[50][0], "doc": terms.doc(terms.build(deep[50][1], f)), "planted": f.planted})
    for viol, counts, nontriv in mcx.pmap(_dispatch, jobs):
        run.merge_violations(viol)
        run.merge_counts(counts)
        for h in nontriv:
            run.nontriv(h)
    return run.finish(
        rule="planted-literal terms as in C04 (all spine terms to depth 2; depth 3 over a 12-construct core for Nemeth/UEB/LaTeX in quick, all codes in "
             "thorough; depth 4 over a 6-construct core in thorough; all spine terms to depth 2 again with integer literals; every digit in every numeric operand slot of every construct; the decimals 2.0 3.0 1.0 0.0 4.0 10.0 2.00 0.5 - numerically small integers and a half - in every numeric slot of every construct) x codes {Nemeth, UEB, CMU, Vietnam, LaTeX, ASCIIMath} x code preferences "
             "(UEB start mode and operator spacing, Vietnam drop numbers, LaTeX short names, ASCIIMath operator spacing); plus code walks on the SAME stored "
             "expression: braille under A, then under B without a new set_mathml, for all 30 ordered pairs (quick: every third spine term; thorough: all). "
             "distinct_nontrivial = distinct (code, preferences, braille string) triples",
        assumptions=["the expected cell run of a literal is that of the bare <mn> in the same configuration, itself validated against hard-coded digit/decimal tables",
                     "CMU and Vietnam may drop the digits of simple numeric fractions to the lower cells: either form counts",
                     "the statement names six codes; Swedish and ASCIIMath-fi are exercised by C07/C15 only"],
        confirm=confirm)
