"""C16 — split numbers fold into the same number as the unsplit form.
Positive: every number of the locale grammar x every way of writing each separator as a token of
its own (<mo> or <mtext>) x contexts x locales: canonical MathML (ids / data-* stripped; thorough:
speech and braille too) equals that of the single-<mn> spelling in the same context.
Negative: near-miss token sequences: every output <mn> that is not one of the input tokens must
be a syntactically valid number for the locale; a comma list inside fences keeps its comma."""
import itertools, json, re
from common import Run, norm_ids, is_ok, val, short, diffshow
import terms, mcx
from terms import T, mi, mn, mo, mtext, row, el

NBSP = " "
# name -> (prefs, decimal mark, block separators usable as visible tokens)
LOCALES = {
    "US": ([["pref", "Language", "en"], ["pref", "DecimalSeparator", "Auto"]], ".", [","]),
    "EU": ([["pref", "Language", "en"], ["pref", "DecimalSeparator", ","]], ",", ["."]),
    "SV": ([["pref", "Language", "sv"], ["pref", "DecimalSeparator", "Auto"]], ",", ["."]),
    "CH": ([["pref", "Language", "de-ch"], ["pref", "DecimalSeparator", "Auto"]], ",", [".", "'"]),
}
# two locales set through the separator preferences directly; each differs from US in exactly one of the two preferences
# language tags with a country that overrides the language's separators, in both spellings of the tag (BCP 47 writes the country in
# capitals); the separators are those of CLDR: Mexico uses the period as decimal mark, Switzerland the apostrophe as group separator
LOCALES["MX"] = ([["pref", "Language", "es-MX"], ["pref", "DecimalSeparator", "Auto"]], ".", [","])
LOCALES["mx"] = ([["pref", "Language", "es-mx"], ["pref", "DecimalSeparator", "Auto"]], ".", [","])
LOCALES["CHuc"] = ([["pref", "Language", "de-CH"], ["pref", "DecimalSeparator", "Auto"]], ",", [".", "'"])
LOCALES["USb"] = (LOCALES["US"][0] + [["pref", "BlockSeparators", ",   ٬"]], ".", ["٬"])
LOCALES["USd"] = (LOCALES["US"][0] + [["pref", "DecimalSeparators", ".٫"]], "٫", [","])
_SP = "   "
LOCALE_BLOCKS = {"US": "," + _SP, "EU": "." + _SP, "SV": "." + _SP, "CH": "." + _SP + "'", "USb": "," + _SP + "٬", "USd": "," + _SP,
                 "MX": "," + _SP, "mx": "," + _SP, "CHuc": "." + _SP + "'"}
# locale histories: the separators in force must be those of the *current* preferences, whatever was used before
HISTORIES = [("US", "USb"), ("US", "USd"), ("USb", "US"), ("USd", "USb"), ("EU", "CH"), ("CH", "EU"), ("US", "EU"), ("EU", "US"), ("SV", "US"), ("US", "CH")]


def numbers(dmark, bsep, tier):
    """(parts) where parts is a list of digit strings and separator strings alternating, e.g.
    ['1', ',', '234', '.', '5'] — all numbers of the grammar with a fixed digit assignment."""
    leads = ["7", "42", "123"]
    groups = ["456", "789", "012"]
    fracs = ["5", "25", "125", "0625"] + (["14159"] if tier == "thorough" else [])
    out = []
    for lead in leads:
        for k in range(0, 4):
            ip = [lead]
            for g in groups[:k]:
                ip += [bsep, g]
            out.append(ip)                          # integer
            out.append(ip + [dmark])                # trailing mark
            for f in fracs:
                out.append(ip + [dmark, f])
    for f in fracs:
        out.append([dmark, f])                      # leading mark
    return [p for p in out if len(p) > 1]           # something to split


def split_variants(parts):
    """every separator its own token, each as <mo> or <mtext>"""
    seps = [i for i, p in enumerate(parts) if not p.isdigit()]
    for kinds in itertools.product(("mo", "mtext"), repeat=len(seps)):
        toks = []
        ki = 0
        for i, p in enumerate(parts):
            if p.isdigit():
                toks.append(mn(p))
            else:
                toks.append(T(kinds[ki], text=p))
                ki += 1
        yield "".join(k[1] for k in kinds), toks


CONTEXTS = {
    "alone":   lambda n: row(*n),
    "a+N":     lambda n: row(mi("a"), mo("+"), *n),
    "N+a":     lambda n: row(*n, mo("+"), mi("a")),
    "f(N)":    lambda n: row(mi("f"), mo("("), *n, mo(")")),
    "f(mrowN)": lambda n: row(mi("f"), mo("("), row(*n), mo(")")),
    "x^N":     lambda n: el("msup", mi("x"), row(*n)),
    "N/2":     lambda n: el("mfrac", row(*n), mn("2")),
    "sqrt":    lambda n: el("msqrt", *n),
    "y=N.":    lambda n: row(mi("y"), mo("="), *n, mo(".")),
    "y=N,":    lambda n: row(mi("y"), mo("="), *n, mo(",")),            # the sentence goes on after a comma
    "y=N;":    lambda n: row(mi("y"), mo("="), *n, mo(";")),
    "N;N":     lambda n: row(mo("["), *[x.copy() for x in n], mo(";"), *[x.copy() for x in n], mo("]")),
    # fences with material in front of them, the list as the generator's own mrow or flat
    "P=(mrowN)": lambda n: row(mi("P"), mo("="), mo("("), row(*n), mo(")")),
    "x∈[mrowN]": lambda n: row(mi("x"), mo("∈"), mo("["), row(*n), mo("]")),
    "A∪{N}":   lambda n: row(mi("A"), mo("∪"), mo("{"), *n, mo("}")),
    "f(mrowN)+a": lambda n: row(mi("f"), mo("("), row(*n), mo(")"), mo("+"), mi("a")),
    "(mrowN)":  lambda n: row(mo("("), row(*n), mo(")")),
    "cell":    lambda n: el("mtable", el("mtr", el("mtd", *n), el("mtd", mi("b")))),
    # rows that hold a list comma of their own somewhere else: an argument list with the number as one argument, a number after a call
    "f(x,N)":  lambda n: row(mi("f"), mo("("), mi("x"), mo(","), *n, mo(")")),
    "f(N,x)":  lambda n: row(mi("f"), mo("("), *n, mo(","), mi("x"), mo(")")),
    "g(a,b)=N": lambda n: row(mi("g"), mo("("), mi("a"), mo(","), mi("b"), mo(")"), mo("="), *n),
}
FENCED = ("f(N)", "f(mrowN)", "N;N", "P=(mrowN)", "x∈[mrowN]", "A∪{N}", "f(mrowN)+a", "(mrowN)", "f(x,N)", "f(N,x)")
MARK_LAST = ("alone", "a+N", "sqrt", "x^N", "y=N.", "y=N,", "y=N;", "g(a,b)=N")
CTX_CLASS = {"alone": "row", "a+N": "row", "N+a": "row", "f(N)": "fenced", "f(mrowN)": "fenced", "N;N": "fenced",
             "P=(mrowN)": "fenced", "x∈[mrowN]": "fenced", "A∪{N}": "fenced", "f(mrowN)+a": "fenced", "(mrowN)": "fenced",
             "x^N": "2d", "N/2": "2d", "sqrt": "2d", "cell": "2d", "y=N.": "sentence-final", "y=N,": "before-comma", "y=N;": "before-semicolon",
             "f(x,N)": "argument-list", "f(N,x)": "argument-list", "g(a,b)=N": "after-list"}


def strip(t):
    """canonical comparison form: tags, text and author-visible attributes only"""
    a = {k: v for k, v in t.attrs.items() if k != "id" and not k.startswith("data-")}
    if t.kids:
        return [t.tag, a, [strip(k) for k in t.kids]]
    return [t.tag, a, t.text or ""]


def canon_form(r):
    if not is_ok(r):
        return ["ERR", r[0], r[1] if len(r) > 1 else ""]
    try:
        return strip(terms.parse_xml(val(r)))
    except Exception as e:
        return ["UNPARSABLE", str(e)]


def valid_number(s, dmark, blocks):
    """Reference grammar of a syntactically valid number for the locale (harness-side, independent
    of the library's regexes).  Leading/trailing blanks are not part of the number."""
    s = s.strip()
    if not re.search(r"\d", s):
        return False
    B = "[" + re.escape(blocks) + "]"
    D = re.escape(dmark)
    integer = rf"(\d*|\d{{1,3}}({B}\d{{3}})+)"
    frac = rf"({D}(\d*|(\d{{3}}{B})*\d{{1,3}}|(\d{{5}}{B})*\d{{1,5}}))?"
    if re.fullmatch(integer + frac, s):
        return True
    if re.fullmatch(r"[0-9a-fA-F]{4}([   ][0-9a-fA-F]{4})+", s):
        return True
    return False


def near_misses(dmark, bsep):
    d, b = dmark, bsep
    seqs = [
        ["1", b, "23"], ["12", b, "3456"], ["1234", b, "567"], ["1", b, "234", b, "56"], ["1", b, "2", b, "3"],
        ["1", d, "2", d, "3"], ["1", b, "234", d, "5", d, "6"], [b, "123"], ["123", b], [b, "123", d, "4"],
        ["1", d, "234", b, "567"], ["12", b, "34", b, "56"], ["1", b, b, "234"], ["1", d, d, "5"], ["1", b, "234", b],
        ["0", b, "5"], ["1", b, "0"], ["12", d, "34", b, "5"], ["100", b, "200", b, "300"], ["1", b, "234", "x"],
        ["1", b, "2345", d, "6"], [d, d, "5"], ["7", d, b, "5"], ["1", "+", "234"], ["3", d, "14159", b, "26535"],
    ]
    return seqs


def tokens_of(seq, sepkind="mo"):
    out = []
    for p in seq:
        if p.isdigit():
            out.append(mn(p))
        elif p.isalpha():
            out.append(mi(p))
        else:
            out.append(T(sepkind, text=p))
    return out


def mns(form, acc):
    if form[0] == "mn":
        acc.append(form[2])
    elif isinstance(form[2], list):
        for k in form[2]:
            mns(k, acc)
    return acc


def find_mo(form, ch):
    if form[0] in ("mo",) and form[2] == ch:
        return True
    if isinstance(form[2], list):
        return any(find_mo(k, ch) for k in form[2])
    return False


def work(item):
    locale, nums, negs, tier = item
    mc = mcx.worker_mc()
    prefs, dmark, bseps = LOCALES[locale]
    blocks = LOCALE_BLOCKS[locale]
    setup = [["rules_dir", mcx.RULES], ["pref", "TTS", "none"], ["pref", "BrailleCode", "UEB"]] + prefs
    deep = tier == "thorough"
    cases, meta = [], []

    def add(doc_):
        ops = [["mathml", doc_]]
        if deep:
            ops += [["speech"], ["braille", ""]]
        cases.append(ops)
        return len(cases) - 1

    for parts in nums:
        whole = "".join(parts)
        for cname, ctx in CONTEXTS.items():
            if cname in ("y=N,", "y=N;") and cname[-1] in parts:
                # "7 , 456 ," - the closing punctuation is the separator used inside: it reads as a list just as well; no claim
                continue
            if parts[-1] == dmark and cname in MARK_LAST:
                # a trailing decimal mark that is the last token of the expression (or is followed by
                # the sentence period) cannot be told from sentence punctuation; the statement lists
                # both readings, so no claim is made there
                continue
            ref = add(terms.doc(ctx([mn(whole)])))
            for kinds, toks in split_variants(parts):
                meta.append(("pos", parts, cname, kinds, ref, add(terms.doc(ctx(toks)))))
    for seq in negs:
        for cname in ("alone", "a+N", "f(N)", "x^N", "y=N."):
            for sepkind in ("mo", "mtext"):
                meta.append(("neg", seq, cname, sepkind, None, add(terms.doc(CONTEXTS[cname](tokens_of(seq, sepkind))))))
    _, res = mc.run_cases(setup, cases)
    viol, counts, nontriv = [], {"evaluations": 0, "positive": 0, "negative": 0, "fence_exempt": 0, "skipped_panics": 0}, []
    for kind, parts, cname, k2, ref, idx in meta:
        counts["evaluations"] += 1
        r = res[idx]
        if r[0][0] in ("p", "abort", "timeout"):
            counts["skipped_panics"] += 1
            continue
        whole = "".join(parts)
        form = canon_form(r[0])
        replay = {"locale": locale, "doc": cases[idx][0][1], "kind": kind, "parts": parts, "context": cname, "sepkinds": k2, "tier": tier}
        if kind == "pos":
            refres = res[ref]
            replay["ref"] = cases[ref][0][1]
            in_fence_with_comma = cname in FENCED and "," in whole
            if in_fence_with_comma:
                # the statement itself says a comma list inside fences stays a list: no positive claim;
                # what must hold is that nothing but valid numbers were formed
                counts["fence_exempt"] += 1
                if form[0] not in ("ERR", "UNPARSABLE"):
                    for m in mns(form, []):
                        if m not in parts and not valid_number(m, dmark, blocks):
                            viol.append((f"C16|{sepclass(parts, dmark)}|fence|{cname}|invalid-merge", f"{whole} split inside fences: formed <mn>{m}</mn>, not a valid number", replay))
                    # "a comma-separated list inside fences is left as a list": every comma written as an operator of its own is still one
                    commas = [k for p_, k in zip([q for q in parts if not q.isdigit()], k2) if p_ == ","]
                    if dmark != ".":
                        pass        # where the comma is the decimal mark "1 , 5" in fences is a number or a list: no claim (as for the near misses below)
                    elif commas and all(c == "o" for c in commas) and parts[0].isdigit() and parts[-1].isdigit() and not find_mo(form, ","):
                        counts["list_in_fences_checked"] = counts.get("list_in_fences_checked", 0) + 1
                        viol.append((f"C16|{sepclass(parts, dmark)}|fence|{CTX_CLASS[cname]}|list-in-fences-absorbed",
                                     f"[{locale}] {' '.join(parts)} inside fences ({cname}): the comma-separated list was absorbed into {short(mns(form, []), 100)}", replay))
                    elif commas and all(c == "o" for c in commas):
                        counts["list_in_fences_checked"] = counts.get("list_in_fences_checked", 0) + 1
                continue
            counts["positive"] += 1
            rform = canon_form(refres[0])
            nontriv.append(hash((locale, whole, cname, k2)))
            shape = shape_of(parts, dmark)
            if form != rform:
                got = mns(form, []) if form[0] not in ("ERR", "UNPARSABLE") else form
                viol.append((f"C16|{sepclass(parts, dmark)}|{CTX_CLASS[cname]}|{shape}|not-folded",
                             f"[{locale}] {' '.join(parts)} in context {cname} (separators as {k2}) does not canonicalize like <mn>{whole}</mn>: numbers in result {short(got, 120)}",
                             replay))
            elif deep:
                for j, what in ((1, "speech"), (2, "braille")):
                    a, b = norm_ids(r[j]), norm_ids(refres[j])
                    if a[:2] != b[:2]:
                        viol.append((f"C16|{sepclass(parts, dmark)}|{CTX_CLASS[cname]}|{shape}|{what}-differs", f"[{locale}] {' '.join(parts)} in {cname}: {what} {short(a, 100)} vs single token {short(b, 100)}", replay))
        else:
            counts["negative"] += 1
            nontriv.append(hash((locale, tuple(parts), cname, k2)))
            if form[0] in ("ERR", "UNPARSABLE"):
                continue
            for m in mns(form, []):
                if m not in parts and not valid_number(m, dmark, blocks):
                    viol.append((f"C16|near-miss|{'_'.join(cls(p, dmark) for p in parts)}|invalid-merge",
                                 f"[{locale}] tokens {' '.join(parts)} in {cname}: formed <mn>{m}</mn>, which is not a valid number for the locale", replay))
            if cname == "f(N)" and "," in parts and dmark == "." and not find_mo(form, ","):
                # comma-separated list inside fences must be left as a list
                viol.append((f"C16|near-miss|{'_'.join(cls(p, dmark) for p in parts)}|list-in-fences-absorbed", f"[{locale}] f({' '.join(parts)}): the comma list was absorbed: {short(mns(form, []), 100)}", replay))
    return viol, counts, nontriv


def work_history(item):
    """Session 'A, one expression, then B' must give exactly what a fresh session under B gives."""
    a, b_, nums = item
    mc = mcx.worker_mc()
    prefs_a, dmark_a, bseps_a = LOCALES[a]
    prefs_b, dmark_b, bseps_b = LOCALES[b_]
    base = [["rules_dir", mcx.RULES], ["pref", "TTS", "none"], ["pref", "BrailleCode", "UEB"]]
    probe = terms.doc(row(mn("1"), mo(bseps_a[0]), mn("234"), mo(dmark_a), mn("5"), mo("+"), mi("a")))
    docs = []
    for parts in nums:
        for cname in ("a+N", "x^N", "f(mrowN)"):
            for kinds, toks in split_variants(parts):
                docs.append((parts, cname, terms.doc(CONTEXTS[cname](toks))))
    cases = [[["mathml", d], ["speech"], ["braille", ""]] for _, _, d in docs]
    _, fresh = mc.run_cases(base + prefs_b, cases)
    _, hist = mc.run_cases(base + prefs_a + [["mathml", probe], ["speech"]] + prefs_b, cases)
    viol, nontriv = [], []
    for (parts, cname, d), f, h in zip(docs, fresh, hist):
        nontriv.append(hash((a, b_, d)))
        f, h = norm_ids(f), norm_ids(h)
        if [x[:2] for x in f] != [x[:2] for x in h]:
            which = next(n for n, x, y in zip(("canonical MathML", "speech", "braille"), f, h) if x[:2] != y[:2])
            viol.append((f"C16|history|{a}->{b_}|{which.split()[0]}-differs",
                         f"after a session under {a}, switching to {b_}: {' '.join(parts)} in {cname} gives a different {which} than in a fresh {b_} session",
                         {"kind": "hist", "a": a, "b": b_, "parts": parts}))
    return viol, {"evaluations": len(docs), "history_cases": len(docs)}, nontriv


def cls(p, dmark):
    if p.isdigit():
        return f"d{len(p)}"
    return "D" if p == dmark else ("B" if not p.isalpha() and p != "+" else p)


def sepclass(parts, dmark):
    """decimal mark + the group separators that occur: '.,' US style, ',.' continental, ",'" Swiss, ..."""
    bs = sorted({p for p in parts if not p.isdigit() and p != dmark})
    return "dec" + dmark + "grp" + "".join("nbsp" if b == NBSP else b for b in bs)


def shape_of(parts, dmark):
    """number shape class: lead?/groups/fraction?/mark position"""
    has_d = dmark in parts
    i = parts.index(dmark) if has_d else len(parts)
    ngroups = sum(1 for p in parts[:i] if not p.isdigit())
    lead = "lead" if (i > 0) else "nolead"
    frac = "frac" if (has_d and i + 1 < len(parts)) else ("trailmark" if has_d else "int")
    return f"{lead}-g{min(ngroups, 1)}-{frac}"


def confirm(replay, verbose=False):
    mc = mcx.Mc()
    old = mcx._worker_mc
    mcx._worker_mc = mc
    try:
        if replay["kind"] == "hist":
            v, _, _ = work_history((replay["a"], replay["b"], [replay["parts"]]))
        elif replay["kind"] == "pos":
            v, _, _ = work((replay["locale"], [replay["parts"]], [], replay.get("tier", "quick")))
        else:
            v, _, _ = work((replay["locale"], [], [replay["parts"]], replay.get("tier", "quick")))
    finally:
        mcx._worker_mc = old
        mc.close()
    if verbose:
        for k, w, _ in v:
            print(" ", k, "—", w)
    return {k for k, _, _ in v}


def _dispatch(job):
    if job[0] == "H":
        return work_history(job[1:])
    return work(job)


def main(tier):
    run = Run("C16", tier, "exploration")
    jobs = []
    for loc, (prefs, dmark, bseps) in LOCALES.items():
        if loc in ("USb", "USd"):
            continue        # directly-set separator sets take part in the locale histories only
        for bsep in bseps + ([NBSP] if tier == "thorough" else []):
            nums = numbers(dmark, bsep, tier)
            for i in range(0, len(nums), 6):
                jobs.append((loc, nums[i:i + 6], [], tier))
            negs = near_misses(dmark, bsep)
            for i in range(0, len(negs), 9):
                jobs.append((loc, [], negs[i:i + 9], tier))
    # determinism gate on one job
    old = mcx._worker_mc
    outs = []
    for _ in range(2):
        mcx._worker_mc = mcx.Mc()
        outs.append(json.dumps(work(jobs[0]), sort_keys=True))
        mcx._worker_mc.close()
    mcx._worker_mc = old
    if outs[0] != outs[1]:
        print("MACHINERY-ERROR property=C16: determinism gate failed")
        return 2
    run.sample({"locale": "US", "number": "1,234.5", "split": "<mn>1</mn><mo>,</mo><mn>234</mn><mtext>.</mtext><mn>5</mn>", "context": "x^N"})
    run.sample({"locale": "EU", "near-miss": ["1", ".", "23"], "context": "a+N"})
    for a, b_ in HISTORIES:
        prefs, dmark, bseps = LOCALES[b_]
        nums = numbers(dmark, bseps[-1], tier)
        nums = [p for p in nums if p[-1] != dmark]
        if tier == "quick":
            nums = nums[::3]
        for i in range(0, len(nums), 8):
            jobs.append(("H", a, b_, nums[i:i + 8]))
    for viol, counts, nontriv in mcx.pmap(_dispatch, jobs):
        run.merge_violations(viol)
        run.merge_counts(counts)
        for h in nontriv:
            run.nontriv(h)
    return run.finish(
        rule="numbers = {1,2,3-digit lead} x {0..3 groups of 3} x {no fraction, trailing mark, fraction of 1..4 (thorough: 5) digits} + "
             "leading-mark decimals; every separator a token of its own, each as <mo> or <mtext> (2^k spellings); 21 contexts (sums, fences, argument lists, 2-D positions, sentence ends); locales "
             "US, EU(DecimalSeparator=','), SV(Language=sv), CH(de-ch, both . and ' as group mark; thorough: also no-break space groups); "
             "25 near-miss sequences x 5 contexts x {mo,mtext}; 10 locale histories (session under A, one expression, switch to B: must equal a fresh B session). distinct_nontrivial = distinct (locale, number, context, spelling) cases compared",
        assumptions=["spellings where a separator is glued to a neighbouring <mn> are outside the space (documented: such an <mn> is taken as deliberately tokenised)",
                     "digit-per-<mn> spellings are not 'broken at separators' and are only in the negative family"],
        confirm=confirm)
