"""C11 — navigation always rests on a node of the current expression.
Explicit-state breadth-first search over the real navigation transition function.  A state is the complete
NavigationState (position stack, command stack, place markers, mode, overview flag; read and restored through
the cfg(mathcat_verif) hook) plus the index of the current expression and the count of 'rare' transitions used.
Transitions: every navigation command of the alphabet, set_mathml(other expression), set_navigation_node.
Invariants are evaluated on every transition from the pre-state and the post-state."""
import json, re
from common import Run, norm_ids, is_ok, is_err, is_panic, val, short, MachineryError
import terms, mcx
from terms import mi, mn, mo, mtext, row, el

MOVES = ["MovePrevious", "MoveNext", "MoveStart", "MoveEnd", "MoveLineStart", "MoveLineEnd", "MoveCellPrevious", "MoveCellNext", "MoveCellUp",
         "MoveCellDown", "MoveColumnStart", "MoveColumnEnd", "ZoomIn", "ZoomOut", "ZoomOutAll", "ZoomInAll"]
READS = ["ReadPrevious", "ReadNext", "ReadCurrent", "ReadCellCurrent", "DescribePrevious", "DescribeCurrent", "DescribeNext", "WhereAmI", "WhereAmIAll",
         "Read0", "Describe0"]
TOGGLES = ["ToggleZoomLockUp", "ToggleZoomLockDown", "ToggleSpeakMode"]
MARKS = ["SetPlacemarker0", "SetPlacemarker1"]
GOTO = ["MoveTo0", "MoveTo1", "MoveTo3"]
FULL = MOVES + ["MoveLastLocation"] + READS + TOGGLES + MARKS + GOTO
CORE = ["ZoomIn", "MoveNext", "MovePrevious", "ZoomOut", "MoveLastLocation", "SetPlacemarker0", "MoveTo0", "MoveTo3", "ReadCurrent"]
RARE = set(TOGGLES + MARKS) | {"set_mathml", "setnav"}
UNMOVING = set(READS + TOGGLES + MARKS)
NOT_SET = "!not set"

RAW = [
    row(mi("a"), mo("+"), el("mfrac", row(mi("b"), mo("−"), mn("12")), el("msup", mi("c"), mn("2")))),
    row(mo("("), el("mtable", el("mtr", el("mtd", mn("1")), el("mtd", mi("x"))), el("mtr", el("mtd", mi("y")), el("mtd", mn("23")))), mo(")")),
    el("msqrt", row(mn("1"), mo("+"), el("mroot", mi("n"), mn("3")))),
    row(mi("sin"), mi("xy"), mo("="), mn("345")),
    mi("z"),
    row(mn("2"), mi("x"), mo("+"), mn("3"), mi("y"), el("msup", mi("z"), mn("2"))),          # implied (invisible) times between siblings
]


def parse_state(s):
    lines = s.split("\n")
    ps = [tuple(p.split("\u0002")) for p in lines[0].split("\u0001")] if lines[0] else []
    cs = lines[1].split("\u0001") if lines[1] else []
    pm = [tuple(p.split("\u0002")) for p in lines[2].split("\u0001")]
    return {"positions": [(a, int(b)) for a, b in ps], "commands": cs, "markers": [(a, int(b)) for a, b in pm], "mode": lines[3], "overview": lines[4]}


def prepare_expressions(mc, prefs):
    """canonicalize each expression once and use the result (ids G-n on every element) as the input, so that ids are stable"""
    out = []
    for t in RAW:
        _, r = mc.run_cases([["rules_dir", mcx.RULES]] + prefs, [[["mathml", terms.doc(t)]]])
        s = norm_ids(val(r[0][0]))
        s = s.replace(" data-id-added='true'", "")
        _, r2 = mc.run_cases([["rules_dir", mcx.RULES]] + prefs, [[["mathml", s], ["navid"]]])
        s2 = val(r2[0][0])
        if s2 is None or set(re.findall(r"\sid='([^']*)'", s2)) != set(re.findall(r"\sid='([^']*)'", s)):
            raise MachineryError("canonical MathML is not id-stable when fed back: " + s[:200])
        _, r3 = mc.run_cases([["rules_dir", mcx.RULES]] + prefs, [[["mathml", s], ["navstate"]]], fresh=True)
        out.append((s, set(re.findall(r"\sid='([^']*)'", s2)), val(r2[0][1])[0], val(r3[0][1])))
    return out


def transition_ops(expr, state, tr, exprs):
    """ops of one transition case.  A state is (navigation state string, NavMode preference, Overview preference): the toggle commands
    write those two preferences, so they are part of the state and are restored with it.
    Observation indices from the end: [-6]=result [-5]=navstate [-4]=navid [-3]=navmml [-2]=NavMode [-1]=Overview"""
    ns, mode, ov = state
    ops = [["pref", "NavMode", mode], ["pref", "Overview", ov], ["mathml", expr], ["setnavstate", ns]]
    if tr[0] == "nav":
        ops.append(["nav", tr[1]])
    elif tr[0] == "set_mathml":
        ops.append(["mathml", exprs[tr[1]][0]])
    else:
        ops.append(["setnav", tr[1], tr[2]])
    ops += [["navstate"], ["navid"], ["navmml"], ["getpref", "NavMode"], ["getpref", "Overview"]]
    if undo_probe(tr):
        ops += [["nav", "MoveLastLocation"], ["navid"]]       # probe (not part of the search): undoing THIS move must lead back to where it started
    return ops


def undo_probe(tr):
    return tr[0] == "nav" and tr[1] in MOVES


def check_transition(ei, pre, tr, res, exprs):
    """-> (list of (key, what), post-state string or None, new expression index)"""
    out = []
    r, st, nid, nmml = res[-6], res[-5], res[-4], res[-3]
    name = tr[1] if tr[0] == "nav" else tr[0]
    def bad(inv, what):
        out.append((f"C11|{inv}|{name if tr[0] == 'nav' else tr[0]}", what))
    if any(is_panic(x) for x in res):
        return [("__panic__", "")], None, ei
    nei = tr[1] if tr[0] == "set_mathml" else ei
    ids = exprs[nei][1]
    post = (val(st), val(res[-2]), val(res[-1]))
    P = parse_state(post[0])
    prep = parse_state(pre[0]) if pre is not None else None
    # I1
    if is_ok(nid):
        cur = (val(nid)[0], val(nid)[1])
        if cur[0] not in ids:
            bad("I1-position-not-in-expression", f"after {name} the navigation id is {cur[0]!r}, not an id of the current expression")
    else:
        cur = None
        bad("I1-id-unavailable", f"after {name} get_navigation_mathml_id fails: {short(nid, 120)}")
    if not is_ok(nmml):
        bad("I1-mathml-unavailable", f"after {name} get_navigation_mathml fails: {short(nmml, 120)}")
    # I6
    if len(P["positions"]) != len(P["commands"]):
        bad("I6-stacks-out-of-step", f"after {name}: {len(P['positions'])} stacked positions but {len(P['commands'])} stacked commands")
    for pid, _ in P["positions"]:
        if pid not in ids:
            bad("I6-stale-stack-entry", f"after {name} the position stack holds {pid!r}, not an id of the current expression")
            break
    for pid, _ in P["markers"]:
        if pid != NOT_SET and pid not in ids:
            bad("I6-stale-place-marker", f"after {name} a place marker holds {pid!r}, not an id of the current expression")
            break
    if prep is not None and prep["positions"] and tr[0] == "nav":
        before = prep["positions"][-1]
        # I2: read-only commands never move
        if name in UNMOVING and cur is not None and cur[0] != before[0]:
            bad("I2-read-moved", f"{name} moved the position from {before} to {cur}")
        # I3: MoveTo_i goes to the marked node
        if name.startswith("MoveTo") and is_ok(r):
            m = prep["markers"][int(name[-1])]
            if m[0] != NOT_SET and cur is not None and cur[0] != m[0]:          # (the statement speaks of the node; offsets inside it are not compared)
                bad("I3-moveto-wrong-node", f"{name}: marker is {m} but the position is now {cur}")
            if m[0] == NOT_SET and cur is not None and cur[0] != before[0]:
                bad("I3-moveto-unset-moved", f"{name} with an unset marker moved the position from {before} to {cur}")
        # I4: undo returns to the position before the last move
        if name == "MoveLastLocation" and is_ok(r) and len(prep["positions"]) >= 2 and cur is not None:
            want = prep["positions"][-2]
            if cur[0] != want[0]:
                bad("I4-undo-wrong-node", f"MoveLastLocation from stack {prep['positions'][-3:]} landed on {cur}, expected {want}")
    if tr[0] == "set_mathml":
        # I5: position back on the whole expression, nothing of the old one left
        if cur is not None and cur != (exprs[nei][2], 0):
            bad("I5-not-at-root", f"after set_mathml the position is {cur}, not the root {exprs[nei][2]!r}")
        if any(m[0] != NOT_SET for m in P["markers"]):
            bad("I5-markers-survive", "place markers survive set_mathml")
    return out, post, nei


def check_undo_probe(pre, tr, res, probe):
    """I4 with evidence that does not come from the library's own stack: the node that was current before the move (top of the
    pre-state) and the node MoveLastLocation lands on right after the move"""
    prep = parse_state(pre[0])
    if not prep["positions"] or not is_ok(res[-6]) or not is_ok(res[-4]) or not is_ok(probe[1]) or is_panic(probe[0]):
        return []
    a, b_ = prep["positions"][-1][0], val(res[-4])[0]
    if a == b_:
        return []                       # the command did not move
    back = val(probe[1])[0]
    if not is_ok(probe[0]) and back != a:
        return [(f"C11|I4-undo-of-this-move-fails|{tr[1]}", f"{tr[1]} moved from {a!r} to {b_!r}, but MoveLastLocation right after it fails ({short(probe[0], 80)}) and leaves the position on {back!r}")]
    if back != a:
        return [(f"C11|I4-undo-of-this-move|{tr[1]}", f"{tr[1]} moved from {a!r} to {b_!r}, but MoveLastLocation right after it lands on {back!r}")]
    return []


def work(item):
    """item: (prefs, exprs, list of (ei, state, rare_used, path, transitions))"""
    prefs, exprs, batch = item
    mc = mcx.worker_mc()
    setup = [["rules_dir", mcx.RULES]] + prefs
    cases, meta = [], []
    for ei, state, rare, path, trs in batch:
        for tr in trs:
            cases.append(transition_ops(exprs[ei][0], state, tr, exprs))
            meta.append((ei, state, rare, path, tr))
    _, res = mc.run_cases(setup, cases)
    out = []
    for (ei, state, rare, path, tr), r in zip(meta, res):
        probe = None
        if undo_probe(tr):
            probe, r = r[-2:], r[:-2]
        v, post, nei = check_transition(ei, state, tr, r, exprs)
        if probe is not None and state is not None and not (v and v[0][0] == "__panic__"):
            v = v + check_undo_probe(state, tr, r, probe)
        obs = [x[:2] if x[0] != "e" else ["e", x[1][:80]] for x in r[-6:]]
        out.append((ei, state, rare, path, tr, v, post, nei, obs))
    return out


def tr_name(tr):
    return tr[1] if tr[0] == "nav" else (f"set_mathml(E{tr[1]})" if tr[0] == "set_mathml" else f"set_navigation_node({tr[1]},{tr[2]})")


def explore(run, prefs, cfgname, exprs, starts, alphabet, depth, extra_trs, stats, conform_depth):
    """BFS from the given start expressions; returns nothing, records into run/stats"""
    seen = set()
    pd = {p[1]: p[2] for p in prefs if p[0] == "pref"}
    frontier = [(ei, (exprs[ei][3], pd["NavMode"], pd["Overview"]), 0, []) for ei in starts]       # the state of a fresh session right after set_mathml
    recorded = {}
    for d in range(depth):
        batch_items = []
        for ei, state, rare, path in frontier:
            trs = [("nav", c) for c in alphabet if not (c in RARE and rare >= 2)]
            if rare < 2:
                trs += extra_trs(ei)
            batch_items.append((ei, state, rare, path, trs))
        jobs = [(prefs, exprs, batch_items[i:i + 12]) for i in range(0, len(batch_items), 12)]
        nxt = []
        for out in mcx.pmap(work, jobs):
            for ei, state, rare, path, tr, v, post, nei, obs in out:
                stats["transitions"] += 1
                stats["outcomes"].add(json.dumps(obs[0], ensure_ascii=False)[:60])
                name = tr_name(tr)
                if v and v[0][0] == "__panic__":
                    stats["skipped_panics"] += 1
                    continue
                for k, w in v:
                    run.violation(k, f"[{cfgname}] E{ei} after [{', '.join(path)}] then {name}: {w}",
                                  {"prefs": prefs, "expr": ei, "path_transitions": path_trs(path) + [list(tr)]})
                if d < conform_depth:
                    recorded[(tuple(path), name)] = (obs, post)
                nrare = rare + (1 if (tr[0] != "nav" or tr[1] in RARE) else 0)
                key = (nei, post, min(nrare, 2))
                if post is not None and key not in seen:
                    seen.add(key)
                    nxt.append((nei, post, nrare, path + [name]))
        stats["states"] += len(nxt)
        stats["levels"].append(len(nxt))
        frontier = nxt
    return recorded


_TR = {}


def path_trs(path):
    return [_TR[p] for p in path]


def conformance(run, prefs, exprs, recorded, stats):
    """the restored-state transition function must equal the replayed one: for every recorded (path, command) replay the
    whole path from set_mathml in one session and compare result and final state"""
    items = list(recorded.items())
    jobs = []
    for i in range(0, len(items), 40):
        jobs.append((prefs, exprs, items[i:i + 40]))
    for out in mcx.pmap(work_conform, jobs):
        for ok, path, name, a, b_ in out:
            stats["traces"] += 1
            if not ok:
                raise MachineryError(f"hook restore disagrees with replay for path {path} + {name}: {short(a, 160)} vs {short(b_, 160)}")


def work_conform(item):
    prefs, exprs, items = item
    mc = mcx.worker_mc()
    setup = [["rules_dir", mcx.RULES]] + prefs
    cases = []
    for (path, name), (obs, post) in items:
        cases.append(replay_ops(path, name, exprs))
    _, res = mc.run_cases(setup, cases, fresh=True)
    out = []
    for ((path, name), (obs, post)), r in zip(items, res):
        got_post = (val(r[-5]), val(r[-2]), val(r[-1]))
        got_r = r[-6][:2] if r[-6][0] != "e" else ["e", r[-6][1][:80]]
        ok = got_post == tuple(post) and got_r == obs[0]
        out.append((ok, list(path), name, [got_r, got_post], [obs[0], post]))
    return out


_CUR_START = [0]


def replay_ops(path, name, exprs):
    ops = [["mathml", exprs[_CUR_START[0]][0]]]
    for p in list(path) + [name]:
        tr = _TR[p]
        if tr[0] == "nav":
            ops.append(["nav", tr[1]])
        elif tr[0] == "set_mathml":
            ops.append(["mathml", exprs[tr[1]][0]])
        else:
            ops.append(["setnav", tr[1], tr[2]])
    # the result of the last op sits at -6 like in transition cases
    ops += [["navstate"], ["navid"], ["navmml"], ["getpref", "NavMode"], ["getpref", "Overview"]]
    return ops


def confirm(replay, verbose=False):
    mc = mcx.Mc()
    try:
        if replay.get("kind") == "keys":
            old_mc = mcx._worker_mc
            mcx._worker_mc = mc
            try:
                v, _ = work_keys((replay["config"], replay["prefs"], [h for h in key_histories() if h[0] == replay["label"]]))
            finally:
                mcx._worker_mc = old_mc
            if verbose:
                for k, w, _ in v:
                    print(" ", k, "—", w)
            return {k for k, _, _ in v}
        if replay.get("kind") == "corpus":
            old_mc = mcx._worker_mc
            mcx._worker_mc = mc
            try:
                v, _, _ = work_corpus((replay["config"], replay["prefs"], [(replay["label"], terms.parse_xml(replay["doc"]).kids[0])]))
            finally:
                mcx._worker_mc = old_mc
            if verbose:
                for k, w, _ in v:
                    print(" ", k, "—", w)
            return {k for k, _, _ in v}
        prefs = replay["prefs"]
        exprs = prepare_expressions(mc, prefs)
        ei = replay["expr"]
        trs = [tuple(t) for t in replay["path_transitions"]]
        keys = set()
        state, cur = None, ei
        # walk the path through the hook-free public API (one session), checking each step
        ops = [["mathml", exprs[ei][0]], ["navstate"]]
        setup = [["rules_dir", mcx.RULES]] + prefs
        hist = [["mathml", exprs[ei][0]]]
        pre = None
        for tr in trs:
            step = [["nav", tr[1]]] if tr[0] == "nav" else ([["mathml", exprs[tr[1]][0]]] if tr[0] == "set_mathml" else [["setnav", tr[1], tr[2]]])
            _, r = mc.run_cases(setup, [hist + [["navstate"], ["getpref", "NavMode"], ["getpref", "Overview"]] + step + [["navstate"], ["navid"], ["navmml"], ["getpref", "NavMode"], ["getpref", "Overview"]]], fresh=True)
            r = r[0]
            pre = (val(r[len(hist)]), val(r[len(hist) + 1]), val(r[len(hist) + 2]))
            v, post, cur = check_transition(cur, pre, tr, r, exprs)
            for k, w in v:
                keys.add(k)
                if verbose:
                    print(" ", k, "—", w)
            hist = hist + step
        return keys
    finally:
        mc.close()


# ---------------------------------------------------------------------------------------------
# expression breadth: one fixed walk (moves, reads, marks, undo, toggles) over a corpus of terms, the same invariants on every step.
# The BFS above explores "every sequence" on a handful of expressions; this family covers "every expression" with one sequence.

WALK = ["ZoomIn", "SetPlacemarker0", "MoveNext", "MoveNext", "ReadCurrent", "MoveLastLocation", "MoveTo0", "ZoomInAll", "MovePrevious", "DescribeCurrent", "SetPlacemarker1", "ZoomOut",
        "MoveEnd", "WhereAmI", "MoveStart", "MoveTo1", "MoveCellNext", "MoveLastLocation", "ZoomOutAll", "ToggleZoomLockDown", "MoveNext", "ToggleSpeakMode", "MovePrevious", "MoveLineEnd",
        "ZoomIn", "ZoomIn", "MoveCellDown", "MoveLastLocation", "MoveTo3", "ReadNext", "MoveColumnStart", "MoveLastLocation"]
OBS = [["navstate"], ["navid"], ["navmml"], ["getpref", "NavMode"], ["getpref", "Overview"]]


def corpus_terms(tier):
    import canon_run
    corp = []
    for sh in terms.spine_shapes(1 if tier == "quick" else 2):
        corp.append((terms.shape_name(sh), terms.build(sh, terms.Filler("mixed"))))
    for name, t in canon_run.special_terms():
        corp.append(("special:" + name, t))
    keep = ("none", "mprescripts", "empty-mrow", "empty-mi", "delete", "mspace", "mphantom", "ins-emptybase-sup", "wrap-mrow", "wrap-mstyle")
    for label, t in [c for c in corp if "[" not in c[0]]:
        for dl, dt in terms.deviations(t):
            if dl.split("@")[0] in keep and (tier == "thorough" or not label.startswith("special:")):
                corp.append((label + "|" + dl, dt))
    return corp


def work_corpus(item):
    cname, prefs, cases = item
    mc = mcx.worker_mc()
    setup = [["rules_dir", mcx.RULES]] + prefs
    ops = [[["mathml", terms.doc(t)], ["navstate"], ["navid"], ["getpref", "NavMode"], ["getpref", "Overview"]] + [op for c in WALK for op in [["nav", c]] + OBS] for _, t in cases]
    _, res = mc.run_cases(setup, ops, fresh=True)          # a session per term: every report replays on its own
    viol, counts, outcomes = [], {"corpus_walks": 0, "corpus_transitions": 0, "skipped_panics": 0}, set()
    for (label, t), r in zip(cases, res):
        if not is_ok(r[0]) or not is_ok(r[1]) or not is_ok(r[2]):
            continue
        counts["corpus_walks"] += 1
        ids = set(re.findall(r"\sid='([^']*)'", val(r[0])))
        exprs = [(terms.doc(t), ids, val(r[2])[0], val(r[1]))]
        pre = (val(r[1]), val(r[3]), val(r[4]))
        done = []
        trail = [("set_mathml", val(r[2])[0])]
        for i, c in enumerate(WALK):
            sl = r[5 + 6 * i: 5 + 6 * (i + 1)]
            if len(sl) < 6:
                break
            v, post, _ = check_transition(0, pre, ("nav", c), sl, exprs)
            if v and v[0][0] == "__panic__":
                counts["skipped_panics"] += 1
                break
            counts["corpus_transitions"] += 1
            done.append(c)
            outcomes.add(hash((c, json.dumps(norm_ids(sl[0][:2]), ensure_ascii=False))))
            # undo, judged from what was OBSERVED along the walk (not from the library's stack): MoveLastLocation right after a move
            # (read-only commands in between do not count) returns to the node that was current before that move
            nowid = val(sl[2])[0] if is_ok(sl[2]) else None
            if c == "MoveLastLocation" and not is_panic(sl[0]) and nowid is not None:
                j = len(trail) - 1
                while j >= 1 and (trail[j][0] in UNMOVING or (trail[j][0] in MOVES and trail[j][1] == trail[j - 1][1])):
                    j -= 1              # read-only commands and moves that went nowhere are not "the last move"
                if j >= 1 and trail[j][0] in MOVES and trail[j][1] is not None and trail[j - 1][1] is not None and trail[j][1] != trail[j - 1][1] and nowid != trail[j - 1][1]:
                    v = v + [(f"C11|I4-undo-of-observed-move|{trail[j][0]}", f"{trail[j][0]} moved from {trail[j - 1][1]!r} to {trail[j][1]!r}, but MoveLastLocation lands on {nowid!r}")]
            trail.append((c, nowid))
            for k, w in v:
                import canon_run
                viol.append((f"{k}|{cname}|{canon_run.label_class(label)}", f"[{cname}] {label}: after [{', '.join(done)}]: {w}",
                             {"kind": "corpus", "config": cname, "prefs": prefs, "label": label, "doc": terms.doc(t)}))
            if post is None:
                break
            pre = post
    return viol, counts, outcomes


# ---------------------------------------------------------------------------------------------
# place markers through the KEY-PRESS entry point: digit i moves to marker i, Ctrl+digit i sets it (the documented key map); every ordered
# pair of markers by keys, and every marker set by key / reached by command and the other way round

def key(d, ctrl=False, shift=False):
    return ["key", 48 + d, shift, ctrl, False, False]


def key_histories():
    hs = []
    pre = [["nav", "ZoomIn"], ["navid"]]
    mid = [["nav", "MoveNext"], ["nav", "MoveNext"], ["navid"]]
    for i in range(10):
        for j in range(10):
            if i != j:
                hs.append((f"keys:{i},{j}", pre + [key(i, ctrl=True)] + mid + [key(j, ctrl=True), ["nav", "MoveNext"], key(i), ["navid"], key(j), ["navid"]], [(1, 9), (5, 11)]))
        hs.append((f"key-set,command-move:{i}", pre + [key(i, ctrl=True)] + mid + [["nav", f"MoveTo{i}"], ["navid"]], [(1, 7)]))
        hs.append((f"command-set,key-move:{i}", pre + [["nav", f"SetPlacemarker{i}"]] + mid + [key(i), ["navid"]], [(1, 7)]))
    return hs


def work_keys(item):
    cname, prefs, hs = item
    mc = mcx.worker_mc()
    setup = [["rules_dir", mcx.RULES]] + prefs
    d = terms.doc(RAW[0])
    _, res = mc.run_cases(setup, [[["mathml", d]] + ops for _, ops, _ in hs], fresh=True)
    viol, n = [], 0
    for (label, ops, pairs), r in zip(hs, res):
        r = r[1:]
        if any(is_panic(x) for x in r):
            continue
        for a, b_ in pairs:
            n += 1
            if not (is_ok(r[a]) and is_ok(r[b_])):
                continue
            if val(r[a])[0] != val(r[b_])[0]:
                kind = label.split(":")[0]
                viol.append((f"C11|I3-marker-by-key|{kind}|{cname}", f"[{cname}] {label}: the marker was set on {norm_ids(val(r[a]))[0]!r} but moving to it lands on {norm_ids(val(r[b_]))[0]!r}",
                             {"kind": "keys", "config": cname, "prefs": prefs, "label": label}))
                break
    return viol, n


CONFIGS = [
    ("Enhanced", [["pref", "NavMode", "Enhanced"], ["pref", "Overview", "false"], ["pref", "AutoZoomOut", "true"]]),
    ("Character", [["pref", "NavMode", "Character"], ["pref", "Overview", "false"], ["pref", "AutoZoomOut", "true"]]),
    ("Simple", [["pref", "NavMode", "Simple"], ["pref", "Overview", "false"], ["pref", "AutoZoomOut", "true"]]),
    ("Enhanced+Overview", [["pref", "NavMode", "Enhanced"], ["pref", "Overview", "true"], ["pref", "AutoZoomOut", "true"]]),
    ("Enhanced-noAutoZoom", [["pref", "NavMode", "Enhanced"], ["pref", "Overview", "false"], ["pref", "AutoZoomOut", "false"]]),
    ("Simple+Overview-noAutoZoom", [["pref", "NavMode", "Simple"], ["pref", "Overview", "true"], ["pref", "AutoZoomOut", "false"]]),
]


# the wording of navigation rules depends on NavVerbosity (and rule files put actions inside such tests): the place-marker histories and,
# in the thorough tier, the corpus walks also run under the two non-default verbosities
VERB_CONFIGS = [
    ("Enhanced/Terse", [["pref", "NavMode", "Enhanced"], ["pref", "Overview", "false"], ["pref", "AutoZoomOut", "true"], ["pref", "NavVerbosity", "Terse"]]),
    ("Simple/Verbose", [["pref", "NavMode", "Simple"], ["pref", "Overview", "false"], ["pref", "AutoZoomOut", "true"], ["pref", "NavVerbosity", "Verbose"]]),
    ("Character/Terse", [["pref", "NavMode", "Character"], ["pref", "Overview", "false"], ["pref", "AutoZoomOut", "true"], ["pref", "NavVerbosity", "Terse"]]),
]


def main(tier):
    run = Run("C11", tier, "model_checking")
    base = [["pref", "TTS", "none"], ["pref", "Language", "en"]]
    mc = mcx.Mc()
    stats = {"transitions": 0, "states": 0, "skipped_panics": 0, "traces": 0, "outcomes": set(), "levels": []}
    plan = []
    if tier == "quick":
        plan = [("Enhanced", [0, 1, 5], FULL, 3, 2), ("Character", [3], FULL, 3, 1), ("Enhanced", [0], CORE, 6, 0), ("Simple", [2], CORE, 5, 0)]
    else:
        for name, _ in CONFIGS:
            plan.append((name, [0, 1, 2, 3, 4, 5], FULL, 3, 2))
        plan += [("Enhanced", [0], FULL, 4, 0), ("Character", [3], FULL, 4, 0), ("Enhanced", [0, 1], CORE, 7, 0), ("Simple", [2], CORE, 7, 0), ("Character", [3], CORE, 6, 0)]
    cfg = dict(CONFIGS)
    per = []
    for cname, starts, alphabet, depth, conform_depth in plan:
        prefs = base + cfg[cname]
        exprs = prepare_expressions(mc, prefs)
        def extra(ei, exprs=exprs):
            other = (ei + 1) % len(exprs)
            ids = sorted(exprs[ei][1])
            pick = [ids[len(ids) // 2], ids[-1]]
            return [("set_mathml", other), ("set_mathml", ei)] + [("setnav", i, o) for i in pick for o in (0, 1)] + [("setnav", "no-such-id", 0)]
        _TR.clear()
        for c in FULL:
            _TR[c] = ("nav", c)
        for ei in range(len(exprs)):
            for tr in extra(ei):
                _TR[tr_name(tr)] = tr
        before = dict(transitions=stats["transitions"], states=stats["states"])
        for st in starts:
            _CUR_START[0] = st
            rec = explore(run, prefs, cname, exprs, [st], alphabet, depth, extra, stats, conform_depth)
            if rec:
                conformance(run, prefs, exprs, rec, stats)
        per.append({"config": cname, "start_expressions": starts, "alphabet": "full(%d)" % len(FULL) if alphabet is FULL else "core(%d)" % len(CORE),
                    "depth": depth, "transitions": stats["transitions"] - before["transitions"], "states": stats["states"] - before["states"]})
    mc.close()
    corp = corpus_terms(tier)
    run.count("corpus_terms", len(corp))
    cjobs = []
    cfg.update(dict(VERB_CONFIGS))
    for cname in (("Enhanced", "Simple", "Character") if tier == "quick" else [c for c, _ in CONFIGS + VERB_CONFIGS]):
        for i in range(0, len(corp), 40):
            cjobs.append((cname, base + cfg[cname], corp[i:i + 40]))
    for viol, counts, outcomes in mcx.pmap(work_corpus, cjobs):
        run.merge_violations(viol)
        run.merge_counts(counts)
        stats["transitions"] += counts["corpus_transitions"]
        stats["outcomes"] |= outcomes
    kh = key_histories()
    run.count("key_histories", len(kh) * 6)
    kjobs = [(cname, base + cfg[cname], kh[i:i + 20]) for cname in ("Enhanced", "Simple", "Character", "Enhanced/Terse", "Simple/Verbose", "Character/Terse") for i in range(0, len(kh), 20)]
    for viol, n in mcx.pmap(work_keys, kjobs):
        run.merge_violations(viol)
        stats["transitions"] += n
    run.counters["evaluations"] = stats["transitions"]
    run.counters["skipped_panics"] = stats["skipped_panics"]
    for o in stats["outcomes"]:
        run.nontriv(o)
    run.sample({"state": "position stack / command stack / place markers / mode / overview as read through the hook", "transition": "MoveLastLocation", "expression": RAW[0].xml()})
    run.sample({"path": ["ZoomIn", "SetPlacemarker0", "MoveLastLocation", "MoveLastLocation", "set_mathml(E1)", "MoveTo0"]})
    return run.finish(
        rule="breadth-first search over the real navigation transition function with exact state hashing (complete NavigationState through the hook, expression index, "
             "rare-transition count); alphabet full = 36 navigation commands + set_mathml(other/same) + set_navigation_node(4 positions, unknown id), core = 9 commands + the same extras; "
             "rare transitions (place markers, toggles, set_mathml, set_navigation_node) at most twice per path; per run: " + json.dumps(per) +
             "; expression breadth: one fixed walk of %d commands (moves, reads, marks, undo, toggles) over %d terms (spine terms, trigger terms, deviations with missing/empty parts) "
             "in %s, the same invariants after every step; place markers through do_navigate_keypress: every ordered pair of the ten markers "
             "set and reached by keys, each marker set by key / reached by command and the reverse, in three modes and under NavVerbosity Terse / Verbose. distinct_nontrivial = distinct command results observed" % (len(WALK), len(corp), "3 navigation modes" if tier == "quick" else "all 6 configurations"),
        coverage_extra={"states": stats["states"], "transitions": stats["transitions"], "traces_validated_against_impl": stats["traces"],
                        "frontier_sizes": stats["levels"], "runs": per},
        assumptions=["the hook's restore is validated against replay through the public API for every state of the first levels (a disagreement aborts the run as a machinery error)",
                     "ids are made stable by feeding the library its own canonical MathML (checked to be id-stable)"],
        confirm=confirm)
