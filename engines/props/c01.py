import canon_run


def main(tier):
    return canon_run.main("C01", tier)


confirm = canon_run.confirm_for("C01")
