"""C05 — speech is clean, non-empty text in every language.
Space: level-0 terms of G + level-1 deviations on depth-1 terms and trigger terms (degenerate and
invisible-operator children), every character the language's unicode.yaml / unicode-full.yaml defines
(one token context each) and characters in no table; x every language x style x verbosity and
capital-letter / override / impairment preferences; TTS=none.  Getters: speech, overview, four navigation reads.
Oracle: Ok; non-empty iff the expression has visible content; no private-use code points, no [[ ]],
no raw invisible operators, no speech-engine tags."""
import json, os, re
from common import Run, is_ok, is_err, is_panic, val, short
import terms, mcx, lattice, vis, canon_run

TAG_RE = re.compile(r"</?\s*(prosody|break|say-as|phoneme|mark|audio|voice|speak|silence|pitch|rate|volume|spell|pron|bookmark|emph|sub|s|p)\b[^>]*>", re.I)


def dirty(s, engine=False):
    """-> list of (class, detail) for a string that is supposed to be clean speech text (with an engine selected markup is expected:
    the tags are taken out first and only the marker clauses are judged - the markup itself belongs to C13)"""
    out = []
    if engine:
        s = re.sub(r"<[^<>]*>", " ", s)
    for c in s:
        o = ord(c)
        if 0xE000 <= o <= 0xF8FF or 0xF0000 <= o <= 0x10FFFF:
            out.append(("private-use", f"U+{o:04X}"))
            break
    if "[[" in s or "]]" in s:
        out.append(("nav-brackets", "[[ ]]"))
    for c in "⁡⁢⁣⁤":
        if c in s:
            out.append(("invisible-operator", f"U+{ord(c):04X}"))
            break
    m = TAG_RE.search(s)
    if m:
        out.append(("markup", m.group(0)[:40]))
    return out


def table_chars(lang):
    """one representative character per definition entry of the language's unicode files (read with yaml-rust)"""
    parts = lang.split("-")
    chars = []
    for fn in ("unicode.yaml", "unicode-full.yaml"):
        for d in (os.path.join(mcx.RULES, "Languages", *parts), os.path.join(mcx.RULES, "Languages", parts[0])):
            path = os.path.join(d, fn)
            if os.path.exists(path):
                doc = mcx.yaml2json(path)
                for entry in doc[0] if doc else []:
                    if isinstance(entry, list):
                        for kv in entry:
                            k = kv["k"]
                            if isinstance(k, str) and k:
                                if len(k) == 3 and k[1] == "-":      # range "a-z"
                                    chars.append((fn, k[0]))
                                    chars.append((fn, k[2]))
                                elif k.startswith("0x") or k.startswith("0X"):
                                    try:
                                        chars.append((fn, chr(int(k, 16))))
                                    except ValueError:
                                        pass
                                else:
                                    chars.append((fn, k))
                break
    seen, out = set(), []
    for fn, c in chars:
        if c not in seen and not any(0xE000 <= ord(x) <= 0xF8FF or ord(x) >= 0xF0000 for x in c):
            seen.add(c)
            out.append((fn, c))
    return out


NO_TABLE = ["ꙮ", "𓀀", "𝼀", "ᚠ", "ⴰ", "ꓐ", "𐍈", "ᠠ", "Ⰰ", "𞤀", "͸"]


def char_term(c):
    """a token context for one character"""
    esc = c
    if c in ("<", "&", ">"):
        return terms.row(terms.mi("x"), terms.mo(c), terms.mi("y"))
    return terms.row(terms.mi("x"), terms.mo(c), terms.mi("y")) if len(c) == 1 and not c.isalnum() else terms.row(terms.mi(c), terms.mo("+"), terms.mn("1"))


PREF_SETS = [
    [],
    [["pref", "SpeechOverrides_CapitalLetters", "cap"], ["pref", "CapitalLetters_UseWord", "true"]],
    [["pref", "CapitalLetters_UseWord", "false"], ["pref", "CapitalLetters_Pitch", "30"], ["pref", "CapitalLetters_Beep", "true"]],
    [["pref", "Impairment", "LearningDisability"]],
    [["pref", "Impairment", "LowVision"], ["pref", "ClearSpeak_CapitalLetters", "SayCaps"]],
    # preferences that only mean something to a speech engine: with no engine selected they must leave no trace in the text
    [["pref", "Bookmark", "true"]],
    [["pref", "Pitch", "20"], ["pref", "Rate", "250"], ["pref", "Volume", "50"], ["pref", "PauseFactor", "300"], ["pref", "MathRate", "150"]],
    [["pref", "Bookmark", "true"], ["pref", "CapitalLetters_Pitch", "30"], ["pref", "CapitalLetters_Beep", "true"], ["pref", "MathRate", "50"], ["pref", "PauseFactor", "0"]],
    # a speech engine selected: the marker clauses hold for every engine (the final clean-up of the text runs after the engine's tags are in)
    [["pref", "TTS", "SSML"]],
    [["pref", "TTS", "SAPI5"], ["pref", "CapitalLetters_Pitch", "30"]],
]


def work(item):
    lang, style, verb, prefs, cases = item
    mc = mcx.worker_mc()
    setup = [["rules_dir", mcx.RULES], ["pref", "TTS", "none"], ["pref", "Language", lang], ["pref", "SpeechStyle", style], ["pref", "Verbosity", verb]] + prefs
    ops = [[["mathml", terms.doc(t)], ["speech"], ["overview"], ["nav", "ZoomIn"], ["nav", "MoveNext"], ["nav", "ReadCurrent"], ["nav", "DescribeCurrent"]] for _, t in cases]
    _, res = mc.run_cases(setup, ops)
    pn = "+".join(p[1] for p in prefs) or "default"
    engine = any(p[1] == "TTS" and p[2] != "none" for p in prefs)
    viol, counts, nontriv = [], {"evaluations": 0, "skipped_panics": 0, "rejected": 0, "strings_checked": 0}, []
    for (label, t), r in zip(cases, res):
        counts["evaluations"] += 1
        if any(is_panic(x) for x in r):
            counts["skipped_panics"] += 1
            continue
        if not is_ok(r[0]):
            counts["rejected"] += 1
            continue
        lc = label_class(label)
        replay = {"lang": lang, "style": style, "verbosity": verb, "prefs": prefs, "label": label, "doc": terms.doc(t)}
        visible = bool(vis.N(vis.vis(t), True))
        for getter, x in (("speech", r[1]), ("overview", r[2])):
            counts["strings_checked"] += 1
            if not is_ok(x):
                viol.append((f"C05|{getter}-error|{error_class(x)}", f"[{lang}/{style}/{verb} {pn}] {label}: {getter} failed: {error_class(x)}", replay))
                continue
            s = val(x)
            if getter == "speech":
                nontriv.append(hash((lang, style, verb, pn, s)))
                if visible and not s.strip():
                    viol.append((f"C05|empty-speech|{lang}|{style}|{lc}", f"[{lang}/{style}/{verb} {pn}] {label}: speech is empty although the expression has visible content", replay))
            for cls_, detail in dirty(s, engine):
                viol.append((f"C05|{cls_}|{getter}|{lang}|{style}|{lc}", f"[{lang}/{style}/{verb} {pn}] {label}: {getter} contains {cls_} {detail}: {s!r}", replay))
        for getter, x in zip(("nav:ZoomIn", "nav:MoveNext", "nav:ReadCurrent", "nav:DescribeCurrent"), r[3:]):
            if is_ok(x):
                counts["strings_checked"] += 1
                for cls_, detail in dirty(val(x), engine):
                    viol.append((f"C05|{cls_}|{getter}|{lang}|{style}|{lc}", f"[{lang}/{style}/{verb} {pn}] {label}: {getter} contains {cls_} {detail}: {val(x)!r}", replay))
    return viol, counts, nontriv


def error_class(x):
    """root-cause class of a speech error: the innermost rule that failed and the file it lives in"""
    full = x[2] if len(x) > 2 and x[2] else (x[1] if len(x) > 1 else "")
    pats = re.findall(r'attempting replacement pattern: "([^"]*)" for "([^"]*)"', full)
    files = re.findall(r"The patterns are in (\S+?)\.?\n", full)
    last = full.strip().splitlines()[-1][:80] if full.strip() else ""
    m = re.search(r"caused by: ([^\n]*)$", full.strip())
    cause = (m.group(1) if m else last)[:80]
    cause = re.sub(r"M[0-9a-z]{7}-\d+", "ID", cause)
    f = files[-1].replace(mcx.RULES + "/", "").replace("/repo/Rules/", "") if files else "?"
    p = "/".join(pats[-1]) if pats else "?"
    return f"{f}|{p}|{cause}"


def label_class(label):
    if label.startswith("char:"):
        parts = label.split(":", 3)
        if len(parts) == 4 and parts[2] == "alone":
            return f"char:{parts[1]}:alone:U+{ord(parts[3][0]):04X}"         # the character itself: one entry of the table each
        return "char:" + parts[1]         # which unicode file the character came from
    return canon_run.label_class(label)


def confirm(replay, verbose=False):
    mc = mcx.Mc()
    old = mcx._worker_mc
    mcx._worker_mc = mc
    try:
        t = terms.parse_xml(replay["doc"]).kids[0]
        v, _, _ = work((replay["lang"], replay["style"], replay["verbosity"], replay["prefs"], [(replay["label"], t)]))
    finally:
        mcx._worker_mc = old
        mc.close()
    if verbose:
        for k, w, _ in v:
            print(" ", k, "—", w)
    return {k for k, _, _ in v}


def term_corpus(tier):
    out = []
    for sh in terms.spine_shapes(2 if tier == "quick" else 2):
        out.append((terms.shape_name(sh), terms.build(sh, terms.Filler("mixed"))))
    for name, t in canon_run.special_terms():
        out.append(("special:" + name, t))
    return out


def deviation_corpus(tier):
    out = []
    keep = ("empty-mrow", "empty-mi", "empty-mo", "blank-mi", "nbsp-mtext", "mspace", "mphantom", "none", "invisible-times", "apply-function",
            "invisible-comma", "invisible-plus", "invisible-mtext", "ins-invisible-times", "ins-apply-function", "ins-mspace", "ins-emptybase-sup", "delete", "wrap-mphantom")
    for sh in terms.spine_shapes(1):
        base = terms.build(sh, terms.Filler("mixed"))
        for dl, dt in terms.deviations(base):
            if dl.split("@")[0] in keep:
                out.append((terms.shape_name(sh) + "|" + dl, dt))
    if tier == "thorough":
        for name, t in canon_run.special_terms():
            for dl, dt in terms.deviations(t):
                if dl.split("@")[0] in keep:
                    out.append(("special:" + name + "|" + dl, dt))
    # invisible operators (and the other characters with no visible form) INSIDE the text of a token, at every position
    for cname, c in (("apply", "\u2061"), ("times", "\u2062"), ("comma", "\u2063"), ("plus", "\u2064"), ("zwsp", "\u200b"), ("wj", "\u2060")):
        for kind in ("mi", "mn", "mo", "mtext", "ms"):
            base = {"mi": "ab", "mn": "12", "mo": "<=", "mtext": "ab", "ms": "ab"}[kind]
            for pname, txt in (("first", c + base), ("mid", base[0] + c + base[1:]), ("last", base + c), ("mid2", base + c + base), ("only+1", base[0] + c), ("twice", base[0] + c + c + base[1:])):
                out.append((f"token-text:{cname}:{kind}:{pname}", terms.row(terms.mi("x"), terms.mo("="), terms.T(kind, text=txt))))
    return out


def main(tier):
    run = Run("C05", tier, "exploration")
    corp = term_corpus(tier)
    devs = deviation_corpus(tier)
    run.count("terms", len(corp))
    run.count("deviation_terms", len(devs))
    jobs = []
    langs = lattice.languages()
    for lang, style, verb in lattice.speech_configs():
        cs = list(corp)
        if verb != "Medium" or tier == "thorough":
            pass
        # deviations in every language, one style/verbosity pair each in quick (all in thorough); Terse matters for silent apply-function
        if tier == "thorough" or verb in ("Terse", "Verbose"):
            cs = cs + devs
        for i in range(0, len(cs), 800):
            jobs.append((lang, style, verb, [], cs[i:i + 800]))
    # the inputs of the repository's own tests (they reach rules the grammar does not): English in every style and verbosity, every other
    # language in each style at one verbosity (thorough: all)
    tests = canon_run.test_cases(private_use=False)
    run.count("test_suite_expressions", len(tests))
    for lang, style, verb in lattice.speech_configs():
        if tier == "thorough" or lang == "en" or verb == "Medium":
            for i in range(0, len(tests), 500):
                jobs.append((lang, style, verb, [], tests[i:i + 500]))
    nchars = 0
    for lang in langs:
        chars = [(f"char:{fn}:{c}", char_term(c)) for fn, c in table_chars(lang)] + [(f"char:none:{c}", char_term(c)) for c in NO_TABLE]
        # the character as the whole expression: an entry that says nothing (at some verbosity) is silent here and merely shorter in context
        lone = [(f"char:{fn}:alone:{c}", terms.T("mo" if not c.isalnum() else "mi", text=c)) for fn, c in table_chars(lang) if len(c) == 1 and not c.isspace()]
        nchars += len(chars) + len(lone)
        for style in lattice.styles(lang):
            for verb in (["Medium"] if tier == "quick" else lattice.VERBOSITIES):
                for i in range(0, len(chars), 800):
                    jobs.append((lang, style, verb, [], chars[i:i + 800]))
            for verb in (["Terse"] if tier == "quick" else lattice.VERBOSITIES):       # Terse: entries whose wording depends on the verbosity
                for i in range(0, len(lone), 800):
                    jobs.append((lang, style, verb, [], lone[i:i + 800]))
        # preference sets on a reduced corpus (capitals, Greek, chemistry live in the trigger terms)
        small = [c for c in corp if c[0].startswith("special:") or "[" not in c[0]]
        caps = [("caps:" + str(i), t) for i, t in enumerate([
            terms.row(terms.mi("A"), terms.mo("+"), terms.mi("B"), terms.mo("="), terms.mi("Γ")),
            terms.row(terms.el("msub", terms.mi("H"), terms.mn("2")), terms.mi("O")),
            terms.el("mover", terms.mi("AB"), terms.mo("¯")),
            terms.row(terms.mi("P"), terms.mo("("), terms.mi("X"), terms.mo("|"), terms.mi("Y"), terms.mo(")")),
            terms.row(terms.mi("𝐀"), terms.mi("ℝ"), terms.mi("𝒳")),
        ])]
        for prefs in PREF_SETS[1:]:
            for style in lattice.styles(lang):
                engine_set = any(p_[1] == "TTS" for p_ in prefs)          # with an engine: every spine term to depth 2 (wording that only deeper terms trigger)
                cs_ = (list(corp) if engine_set else small) + caps
                for i_ in range(0, len(cs_), 800):
                    jobs.append((lang, style, "Medium", prefs, cs_[i_:i_ + 800]))
    run.count("table_characters", nchars)
    outs = []
    for _ in range(2):
        mcx._worker_mc = mcx.Mc()
        outs.append(json.dumps(work(("fi", "ClearSpeak", "Terse", [], corp[:60])), sort_keys=True, ensure_ascii=False))
        mcx._worker_mc.close()
        mcx._worker_mc = None
    if outs[0] != outs[1]:
        print("MACHINERY-ERROR property=C05: determinism gate failed")
        return 2
    run.sample({"config": "vi/SimpleSpeak/Terse", "label": devs[40][0], "doc": terms.doc(devs[40][1])})
    run.sample({"config": "sv/ClearSpeak/Medium", "label": "char:unicode-full.yaml:⊕", "doc": terms.doc(char_term("⊕"))})
    for viol, counts, nontriv in mcx.pmap(work, jobs):
        run.merge_violations(viol)
        run.merge_counts(counts)
        for h in nontriv:
            run.nontriv(h)
    return run.finish(
        rule="all spine terms of G to depth 2 and the trigger terms in all 45 language x style x verbosity configurations; single deviations "
             "(degenerate / invisible-operator children, insertions, deletions) of every depth-1 term (thorough: also of the trigger terms) in every language "
             "and style (quick: Terse and Verbose; thorough: all); one token context for every key of each language's unicode.yaml and unicode-full.yaml, and every single-character key as the whole expression (quick: at Terse) "
             "(read with yaml-rust) and for characters in no table; the MathML inputs of the repository's own tests that contain no private-use characters (English: every style and verbosity; other languages: Medium; thorough: all); nine preference sets (SSML and SAPI5 selected - marker clauses only; capital letters, overrides, impairment, and the engine-only preferences Bookmark / Pitch / Rate / Volume / PauseFactor / MathRate / beep) on a reduced corpus. "
             "Per case: speech, overview and four navigation reads. distinct_nontrivial = distinct (configuration, speech) pairs",
        assumptions=["input alphabets contain no private-use characters, so documented pass-through of unknown characters cannot trip the check",
                     "navigation reads are checked for cleanliness only (they may legitimately fail or be empty)"],
        confirm=confirm)
