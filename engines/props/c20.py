"""C20 — braille highlighting and cursor routing are safe and side-effect free.
Per (expression, braille code, highlight style): a long call history in one session — for every node id
get_braille(id) and set_navigation_node(id)+get_braille_position, for every cell index (and out-of-range
indices) get_navigation_node_from_braille_position, the same after navigation commands — with a snapshot
(highlight preference, navigation position, and periodically speech / braille / overview) after every query."""
import json, re
from common import Run, norm_ids, is_ok, is_err, is_panic, val, short
import terms, mcx, vis, canon_run
from terms import mi, mn, mo, mtext, row, el
from props import c07, c06

CODES = ["Nemeth", "UEB", "CMU"]
STYLES = ["Off", "FirstChar", "EndPoints", "All"]
NCELL = 36
NAVS = ["ZoomIn", "MoveNext", "ZoomInAll", "MoveEnd", "ZoomOut", "MovePrevious"]

EXTRA = [
    ("quadratic", row(mi("x"), mo("="), el("mfrac", row(mo("−"), mi("b"), mo("±"), el("msqrt", row(el("msup", mi("b"), mn("2")), mo("−"), mn("4"), mi("a"), mi("c")))), row(mn("2"), mi("a"))))),
    ("number-long", row(mn("1234567"), mo("+"), mn("3.14159"))),
    ("capitals", row(mi("A"), mi("B"), mo("="), mi("C"), mi("D"))),
    ("invisible-ops", row(mn("2"), mo("⁢"), mi("x"), mo("⁢"), mi("f"), mo("⁡"), mo("("), mi("y"), mo(")"))),
    ("text", row(mtext("if "), mi("x"), mo(">"), mn("0"), mtext(" then stop"))),
    ("matrix3", row(mo("["), el("mtable", *[el("mtr", *[el("mtd", mn(str(3 * r + c))) for c in range(3)]) for r in range(3)]), mo("]"))),
    ("single", mi("z")),
    ("ascii-quotes", row(mn("12"), mo('"'), mo("+"), mtext('"a"'), mo("+"), mi("x"), mo("'"), mo("+"), mn("5"), mo("'"), mn("3"), mo('"'))),
    # numbers whose text a code rewrites while brailling (Roman numerals, separators of the other convention)
    ("roman", row(mn("XIV"), mo("+"), mn("iii"), mo("="), mn("XVII"))),
    ("separators", row(mn("1.234,5"), mo("+"), mn("1,234.5"), mo("+"), mn("12 345"))),
    # an expression that set_mathml accepts but whose braille fails (a table row without cells): queries must stay pure on the error path too
    ("braille-fails", el("mtable", el("mtr", terms.T("mrow")), el("mtr", el("mtd", mi("y"))))),
]


def corpus(tier):
    out = list(EXTRA)
    for sh in terms.spine_shapes(1):
        out.append((terms.shape_name(sh), terms.build(sh, terms.Filler("mixed"))))
    if tier == "thorough":
        from props import c04
        for sh in terms.spine_shapes(2, c04.CORE12):
            if sh[2] is not None:
                out.append((terms.shape_name(sh), terms.build(sh, terms.Filler("mixed"))))
    return out


CHEAP = [["getpref", "BrailleNavHighlight"], ["navid"]]
# navmml first (before this snapshot's own braille call): the stored expression as far as the current position shows it - some codes
# rewrite token text while brailling.  It is compared only between snapshots taken at the same position, with data-* attributes (the
# library's own memo attributes) removed, so what is compared is what later speech and braille are computed from.
FULL = [["navmml"], ["speech"], ["braille", ""], ["overview"]]
NFULL = len(FULL)
FULL_NAMES = ("stored-mathml", "speech", "braille", "overview")


def _stored(x):
    if x and x[0] == "o":
        return ["o", re.sub(r"\sdata-[\w-]+='[^']*'", "", str(val(x)[0]))]
    return x[:1]


FLIPS = [("UEB_UseSpacesAroundAllOperators", "true", "false"), ("UEB_START_MODE", "Grade1", "Grade2"), ("UseSpacesAroundAllOperators", "true", "false"),
         ("Vietnam_UseDropNumbers", "true", "false"), ("LaTeX_UseShortName", "true", "false"), ("DecimalSeparators", ",", "."), ("BlockSeparators", ". ", ", "),
         ("UEB_DoubleStruck", "\u2818\u283c", "\u2808"), ("Language", "es", "en")]


def build_ops(d, ids):
    """-> (ops, plan) ; plan: list of (kind, description, op index, snapshot index or None, extra)"""
    ops = [["mathml", d]]       # (work() puts a write of the highlight style in front of every case, so a leak cannot spill into the next case)
    plan = []

    def snap(full):
        i = len(ops)
        ops.extend(CHEAP)
        j = None
        if full:
            j = len(ops)
            ops.extend(FULL)
        return (i, j)
    s0 = snap(True)
    plan.append(("base", "", None, s0, None))
    q = 0

    def query(kind, desc, op, extra=None, moves=False):
        nonlocal q
        i = len(ops)
        ops.append(op)
        q += 1
        plan.append((kind, desc, i, snap(q % 6 == 0), extra))
    for nid in ids + ["no-such-id", ""]:
        query("braille", f"get_braille({nid!r})", ["braille", nid], nid)
    for p in list(range(NCELL)) + [200, 9999, "MAX"]:
        query("nodeat", f"node_from_braille({p})", ["nodeat", p], p)
    query("brpos", "get_braille_position()", ["brpos"])
    for nid in ids:
        i = len(ops)
        ops.append(["setnav", nid, 0])
        plan.append(("setnav", f"set_navigation_node({nid!r})", i, None, nid))
        query("brpos-at", f"get_braille_position() at {nid!r}", ["brpos"], nid)
        query("braille-cur", f"get_braille({nid!r}) while current", ["braille", nid], nid)
    for c1 in NAVS:
        i = len(ops)
        ops.append(["mathml", d])
        ops.append(["nav", c1])
        plan.append(("nav", c1, i + 1, None, None))
        base = snap(True)
        plan.append(("rebase", c1, None, base, None))
        query("brpos", f"get_braille_position() after {c1}", ["brpos"])
        query("nodeat", f"node_from_braille(2) after {c1}", ["nodeat", 2], 2)
        query("nodeat", f"node_from_braille(9999) after {c1}", ["nodeat", 9999], 9999)
        ni = len(ops)
        ops.append(["navid"])
        query("braille-ref", f"get_braille(current) after {c1}", ["braille", {"r": ni, "k": 0}], None)
    # preferences that change the braille of the SAME stored expression while the navigation position stays where it is: after each
    # write the position query must describe the braille as it is now - inside it, and equal to what the query gives once the expression
    # has been set again and the same node selected (a fresh computation in the same session)
    if ids:
        leaf = ids[-1]
        for name, v1, v2 in FLIPS:
            ops.append(["mathml", d])
            ops.append(["setnav", leaf, 0])
            ops.append(["brpos"])
            for v in (v1, v2):
                i0 = len(ops)
                ops.extend([["pref", name, v], ["brpos"], ["braille", ""], ["mathml", d], ["setnav", leaf, 0], ["brpos"]])
                plan.append(("flip", f"{name}={v}", i0, None, None))
    plan.append(("final", "", None, snap(True), None))
    return ops, plan


def work(item):
    code, style, cases = item
    mc = mcx.worker_mc()
    # "A>B": the same expression is first queried (highlight, routing, position) under code A, then the code is switched to B and the
    # whole history runs under B - everything is judged under B only
    warm, code = (code.split(">") + [None])[:2] if ">" in code else (None, code)
    setup = [["rules_dir", mcx.RULES], ["pref", "TTS", "none"], ["pref", "BrailleCode", warm or code], ["pref", "BrailleNavHighlight", style]]
    built = []
    prefixes = []
    for label, t in cases:
        ti, ids = c07.with_ids(t)
        d = terms.doc(ti)
        ops, plan = build_ops(d, ids[:10])
        built.append((label, d, ops, plan))
        pre = [["pref", "BrailleNavHighlight", style]]
        if warm:
            pre = [["pref", "BrailleCode", warm]] + pre + [["mathml", d]] + [["braille", i] for i in ids[:6]] + [["nodeat", 0], ["nodeat", 3], ["setnav", ids[min(1, len(ids) - 1)], 0], ["brpos"],
                                                                                                       ["pref", "BrailleCode", code]]
        prefixes.append(pre)
    _, res = mc.run_cases(setup, [pre + b[2] for pre, b in zip(prefixes, built)], per_case_timeout=60.0)
    res = [r[len(pre):] for pre, r in zip(prefixes, res)]
    code_label = f"{warm}>{code}" if warm else code
    viol, counts, nontriv = [], {"evaluations": 0, "skipped_panics": 0, "rejected": 0, "queries": 0, "snapshots": 0}, []
    for (label, d, ops, plan), r in zip(built, res):
        r = norm_ids(r)
        counts["evaluations"] += 1
        if not is_ok(r[0]):
            counts["rejected" if not is_panic(r[0]) else "skipped_panics"] += 1
            continue
        canon_ids = set(re.findall(r"\sid='([^']*)'", val(r[0])))
        replay = {"code": code_label, "style": style, "label": label, "doc": d}
        pi = next((i for i, x in enumerate(r) if is_panic(x)), None)
        if pi is not None:
            # "always succeeds": a panic in (or after) these queries is a failure of this property; keyed by the call and the source line
            x = r[pi]
            from props import c08
            viol.append((f"C20|panic|{ops[pi][0]}|{c08.source_line(x[1]) if len(x) > 1 and x[0] == 'p' else x[0]}|{code}", f"[{code_label} highlight={style}] {label}: call #{pi} {ops[pi][:2]} panicked: {short(x, 200)}", replay))
            counts["panics"] = counts.get("panics", 0) + 1
            continue
        lc = canon_run.label_class(label)

        def bad(kind, what):
            viol.append((f"C20|{kind}|{code}" + ("|after-code-switch" if warm else ""), f"[{code_label} highlight={style}] {label}: {what}", replay))
        base_cheap = base_full = None
        plain = None
        moved_to = None
        for kind, desc, i, sn, extra in plan:
            if kind in ("base", "rebase"):
                base_cheap = [x[:2] for x in r[sn[0]:sn[0] + 2]]
                base_full = [x[:2] for x in r[sn[1]:sn[1] + NFULL]]
                plain = val(r[sn[1] + 2]) if is_ok(r[sn[1] + 2]) else None
                base_full[0] = _stored(r[sn[1]])
                base_at = base_cheap[1]
                continue
            if kind == "nav":
                continue
            if kind == "flip":
                counts["queries"] += 1
                wr, p1, br, _, sn_, p2 = r[i:i + 6]
                if is_ok(wr) and is_ok(br) and is_ok(p1):
                    a, z = val(p1)
                    if not (0 <= a <= z <= len(val(br))):
                        bad("position-out-of-range|after-preference", f"after {desc} get_braille_position() = ({a}, {z}) but the braille now has {len(val(br))} cells")
                    elif is_ok(sn_) and is_ok(p2) and val(p1) != val(p2):
                        bad("position-stale|after-preference", f"after {desc} get_braille_position() = {val(p1)}, but {val(p2)} once the expression is set again and the same node selected")
                continue
            if kind == "setnav":
                if extra in canon_ids:
                    if not is_ok(r[i]):
                        bad("setnav-fails", f"{desc} failed for an id of the expression: {short(r[i], 100)}")
                    else:
                        base_cheap = [base_cheap[0], ["o", [extra, 0]]]
                continue
            if kind == "final":
                cheap = [x[:2] for x in r[sn[0]:sn[0] + 2]]
                full = [x[:2] for x in r[sn[1]:sn[1] + NFULL]]
                if cheap[0] != base_cheap[0]:
                    bad("pref-changed", f"BrailleNavHighlight is {short(cheap[0], 60)} at the end of the history, was {short(base_cheap[0], 60)}")
                continue
            counts["queries"] += 1
            x = r[i]
            L = len(plain) if plain is not None else None
            # --- results -----------------------------------------------------------------------
            if kind in ("braille", "braille-cur", "braille-ref"):
                if not is_ok(x):
                    if plain is not None:
                        bad("braille-fails", f"{desc} failed although get_braille('') works: {short(x, 100)}")
                else:
                    b = val(x)
                    nontriv.append(hash((code, style, b)))
                    if plain is not None:
                        if c06.unhighlight(b) != c06.unhighlight(plain):
                            # highlighted braille that differs in more than dots 7-8 (indicators, contractions): observed, but the
                            # statement makes no claim about it, so it is counted and not judged
                            counts["highlight_changes_cells_observed"] = counts.get("highlight_changes_cells_observed", 0) + 1
                        if (style == "Off" or (kind == "braille" and extra not in canon_ids)) and b != plain:
                            bad("highlight-when-none-expected", f"{desc} is {b!r}, but with style {style} / this id it must equal the plain braille {plain!r}")
            elif kind in ("brpos", "brpos-at"):
                if not is_ok(x):
                    if plain is not None:
                        bad("position-fails", f"{desc} failed: {short(x, 100)}")
                else:
                    a, z = val(x)
                    if L is not None and not (0 <= a <= z <= L):
                        bad("position-out-of-range", f"{desc} = ({a}, {z}) but the braille has {L} cells")
            elif kind == "nodeat":
                p = extra
                inrange = isinstance(p, int) and L is not None and p < L
                if is_ok(x):
                    nid = val(x)[0]
                    if nid not in canon_ids:
                        bad("routed-to-foreign-id", f"{desc} returned id {nid!r}, not an id of the expression")
                elif inrange:
                    bad("routing-fails-in-range", f"{desc} failed for a cell of the braille ({L} cells): {short(x, 100)}")
            # --- purity ------------------------------------------------------------------------
            counts["snapshots"] += 1
            cheap = [y[:2] for y in r[sn[0]:sn[0] + 2]]
            if cheap[0] != base_cheap[0]:
                bad("pref-changed", f"{desc} changed BrailleNavHighlight from {short(base_cheap[0], 60)} to {short(cheap[0], 60)}")
                base_cheap = [cheap[0], base_cheap[1]]
            if cheap[1] != base_cheap[1]:
                bad("position-moved", f"{desc} moved the navigation position from {short(base_cheap[1], 60)} to {short(cheap[1], 60)}")
                base_cheap = [base_cheap[0], cheap[1]]
            if sn[1] is not None:
                full = [y[:2] for y in r[sn[1]:sn[1] + NFULL]]
                full[0] = _stored(r[sn[1]]) if cheap[1] == base_at else base_full[0]       # another position shows another part of the expression
                for nm, a, b_ in zip(FULL_NAMES, full, base_full):
                    if a != b_:
                        bad(f"output-changed|{nm}", f"after {desc} (and the queries before it) {nm} is {short(a, 80)}, was {short(b_, 80)}")
                        base_full = full
                        break
    return viol, counts, nontriv


def confirm(replay, verbose=False):
    mc = mcx.Mc()
    old = mcx._worker_mc
    mcx._worker_mc = mc
    try:
        t = terms.parse_xml(replay["doc"]).kids[0]
        for _, n in t.walk():
            n.attrs.pop("id", None)
        v, _, _ = work((replay["code"], replay["style"], [(replay["label"], t)]))
    finally:
        mcx._worker_mc = old
        mc.close()
    if verbose:
        for k, w, _ in v:
            print(" ", k, "—", w)
    return {k for k, _, _ in v}


def main(tier):
    run = Run("C20", tier, "model_checking")
    corp = corpus(tier)
    run.count("expressions", len(corp))
    jobs = []
    codes = CODES + ["Vietnam"]
    text_codes = ["LaTeX", "ASCIIMath"]          # "every braille code": the codes whose output is ASCII text are queried and routed like the cell codes
    switches = [f"{a}>{b_}" for a in codes for b_ in codes if a != b_ and (tier == "thorough" or "Vietnam" not in (a, b_) or "UEB" in (a, b_))]
    run.count("code_switch_pairs", len(switches))
    for code in codes + text_codes + switches:
        for style in STYLES:
            for i in range(0, len(corp), 6):
                jobs.append((code, style, corp[i:i + 6]))
    outs = []
    for _ in range(2):
        mcx._worker_mc = mcx.Mc()
        outs.append(json.dumps(work(("UEB", "FirstChar", corp[:4])), sort_keys=True, ensure_ascii=False))
        mcx._worker_mc.close()
        mcx._worker_mc = None
    if outs[0] != outs[1]:
        print("MACHINERY-ERROR property=C20: determinism gate failed")
        return 2
    ops, plan = build_ops(terms.doc(c07.with_ids(corp[0][1])[0]), c07.with_ids(corp[0][1])[1][:10])
    run.sample({"expression": corp[0][0], "history_length": len(ops), "history_start": [o[0] + ("(" + str(o[1]) + ")" if len(o) > 1 and not isinstance(o[1], dict) else "") for o in ops[6:30]]})
    states = 0
    trans = 0
    for viol, counts, nontriv in mcx.pmap(work, jobs):
        run.merge_violations(viol)
        run.merge_counts(counts)
        for h in nontriv:
            run.nontriv(h)
        states += counts["snapshots"]
        trans += counts["queries"]
    return run.finish(
        rule=f"expressions: 7 hand-written (quadratic formula, long numbers, capitals, invisible operators, text, 3x3 matrix, single token) + every depth-1 term of G"
             f"{' + depth-2 terms over a 12-construct core' if tier == 'thorough' else ''}, with author ids on every element; codes {CODES + ['Vietnam', 'LaTeX', 'ASCIIMath']} x 4 highlight styles. "
             f"One history per (expression, code, style): get_braille for each of the first 10 ids, an unknown id and ''; node_from_braille for cells 0..{NCELL - 1}, 200, 9999 and usize::MAX; "
             "set_navigation_node + get_braille_position + get_braille for each id; and after each of 6 navigation commands position / routing / highlight queries again. "
             "The same history again for every ordered pair of codes A>B: warm-up queries under A, switch to B, whole history under B. After every query the "
             "highlight preference and navigation position are re-read (every 6th: speech, braille, overview too). states = snapshots compared, transitions = queries; "
             "distinct_nontrivial = distinct (code, style, braille) results",
        coverage_extra={"states": states, "transitions": trans, "traces_validated_against_impl": int(run.counters.get("evaluations", 0))},
        assumptions=["set_navigation_node is the one call of the history that is allowed to move the position",
                     "a panic anywhere in a history is a violation of 'always succeeds' (keyed by call and source location)"],
        confirm=confirm)
