"""C14 — broken rule files give errors, not crashes, and recovery is complete.
Fault enumeration on a private copy of Rules/ (one per worker) with a harness-owned clock for file times:
every rule file reachable from a configuration x every fault kind x order of fault / call / repair (before or after the first load,
with or without a call under the fault, in a file only another configuration reads) x recovery (file checking and re-pointing,
file checking alone, re-pointing alone)."""
import json, os, re, shutil
from common import Run, norm_ids, is_ok, is_err, is_panic, val, short
import terms, mcx
from terms import mi, mn, mo, row, el

WORKROOT = os.path.join(mcx.WORK, "c14")
T0 = 1_700_000_000
CONFIGS = {
    "en/ClearSpeak/Nemeth": ("en", "ClearSpeak", "Nemeth"),
    "es/SimpleSpeak/CMU": ("es", "SimpleSpeak", "CMU"),
    "en-gb/ClearSpeak/UEB": ("en-gb", "ClearSpeak", "UEB"),
}
EXPR = terms.doc(row(mi("x"), mo("⊕"), mn("3.5", id="num"), mo("+"), el("mfrac", mn("1"), mn("2")), mo("="), el("msqrt", row(mi("sin"), mi("A")))))
# every kind of call a host makes, incl. the braille queries that work with a temporarily changed preference (highlighted braille of a node,
# cursor routing, position of the current node) and two preference reads: what a call under a fault leaves behind must be gone after the repair
GETTERS = [["mathml", EXPR], ["speech"], ["braille", ""], ["overview"], ["nav", "ZoomIn"], ["nav", "MoveNext"],
           ["nodeat", 2], ["brpos"], ["braille", "num"], ["getpref", "BrailleNavHighlight"], ["getpref", "NavMode"]]
GNAMES = ["set_mathml", "speech", "braille", "overview", "nav:ZoomIn", "nav:MoveNext", "node_from_braille", "braille_position", "braille:node", "pref:BrailleNavHighlight", "pref:NavMode"]


def reachable_files(lang, style, code):
    """(relative path, class) of every rule file the configuration can read"""
    parts = lang.split("-")
    out = [("prefs.yaml", "prefs.yaml"), ("definitions.yaml", "Rules/definitions.yaml"), ("intent.yaml", "intent.yaml")]
    for f in sorted(os.listdir(os.path.join(mcx.RULES, "Intent"))):
        out.append((f"Intent/{f}", "Intent/*"))
    ldir = os.path.join("Languages", parts[0])
    for f in ("definitions.yaml", "unicode.yaml", "unicode-full.yaml", "navigate.yaml", "overview.yaml", f"{style}_Rules.yaml"):
        if os.path.exists(os.path.join(mcx.RULES, ldir, f)):
            out.append((f"{ldir}/{f}", "lang/" + (f if not f.endswith("_Rules.yaml") else "style-rules")))
    for f in sorted(os.listdir(os.path.join(mcx.RULES, ldir, "SharedRules"))):
        out.append((f"{ldir}/SharedRules/{f}", "lang/SharedRules"))
    if len(parts) > 1:
        rdir = os.path.join(ldir, parts[1])
        for f in sorted(os.listdir(os.path.join(mcx.RULES, rdir))):
            out.append((f"{rdir}/{f}", "region/" + f))
    bdir = os.path.join("Braille", code)
    for f in sorted(os.listdir(os.path.join(mcx.RULES, bdir))):
        out.append((f"{bdir}/{f}", "braille/" + (f if not f.endswith("_Rules.yaml") else "rules")))
    out.append(("Braille/definitions.yaml", "Braille/definitions.yaml"))
    return out


def entry_offsets(text):
    """byte offsets of top-level list entries ('- ' or ' - ' at the file's entry indentation)"""
    m = re.search(r"^( *)- ", text, re.M)
    if not m:
        return []
    ind = m.group(1)
    return [x.start() for x in re.finditer(r"^" + ind + r"- ", text, re.M)]


def faults_for(rel, klass, tier):
    """(fault name, kind, payload): kind 'content' -> new file content; 'delete'; 'rename-dir'"""
    path = os.path.join(mcx.RULES, rel)
    text = open(path, encoding="utf-8").read()
    offs = entry_offsets(text)
    out = [("deleted", "delete", None), ("empty", "content", ""), ("scalar", "content", "just a string\n"), ("map", "content", "alpha: 1\nbeta: [2, 3]\n"),
           ("not-yaml", "content", "- [unclosed\n  : : :\n\t- x\n")]
    if len(offs) >= 2:
        n = len(offs)
        if tier == "thorough":
            idx = list(range(1, n)) if n <= 300 else sorted(set(list(range(1, 50)) + list(range(n - 50, n)) + list(range(1, n, 25))))
        else:
            idx = sorted({1, n // 3, n // 2, n - 1})
        for i in idx:
            out.append((f"truncated-at-entry", "content", text[:offs[i]]))
        mid = (offs[n // 2] + (offs[n // 2 + 1] if n // 2 + 1 < n else len(text))) // 2
        out.append(("truncated-mid-entry", "content", text[:mid]))
    ind = re.search(r"^( *)- ", text, re.M)
    ind = ind.group(1) if ind else ""
    if klass in ("lang/style-rules", "lang/SharedRules", "lang/navigate.yaml", "lang/overview.yaml", "braille/rules", "Intent/*", "intent.yaml"):
        out.append(("bad-xpath", "content", text.rstrip("\n") + f"\n{ind}- name: verif-bad-xpath\n{ind}  tag: mi\n{ind}  match: \"((( not xpath\"\n{ind}  replace:\n{ind}  - t: \"x\"\n"))
        out.append(("unknown-key", "content", text.rstrip("\n") + f"\n{ind}- name: verif-unknown-key\n{ind}  tag: mi\n{ind}  match: \"false()\"\n{ind}  bogus_key: 1\n{ind}  replace:\n{ind}  - t: \"x\"\n"))
    if klass.endswith("definitions.yaml"):
        out.append(("wrong-type-definition", "content", text.rstrip("\n") + f"\n{ind}- NumbersOnes: 7\n"))
        out.append(("wrong-type-definition2", "content", text.rstrip("\n") + f"\n{ind}- FunctionNames: \"notalist\"\n"))
    if klass.endswith("unicode.yaml") or klass.endswith("unicode-full.yaml"):
        out.append(("bad-char-entry", "content", text.rstrip("\n") + f"\n{ind}- \"⊕\": 7\n"))
    if klass == "prefs.yaml":
        out.append(("prefs-wrong-shape", "content", "Speech: 7\nNavigation: []\nBraille: x\nOther: {}\n"))
    return out


SHAPE_PRESERVING = {"truncated-at-entry"}
_WF = {}


def wellformed_list(payload):
    """does the faulted content still parse (with yaml-rust) as one document holding a list?  Then it is a shorter but
    well-formed rule file, and a different result is not a silent failure."""
    if payload is None:
        return False
    h = hash(payload)
    if h not in _WF:
        os.makedirs(WORKROOT, exist_ok=True)
        tmp = os.path.join(WORKROOT, f"wf-{os.getpid()}.yaml")
        open(tmp, "w", encoding="utf-8").write(payload)
        try:
            d = mcx.yaml2json(tmp)
            _WF[h] = len(d) == 1 and isinstance(d[0], list) and len(d[0]) > 0 and not (d[0] and isinstance(d[0][0], dict) and "k" in d[0][0])
        except Exception:
            _WF[h] = False
    return _WF[h]


class Env:
    """private rules directory of this worker + harness clock"""

    def __init__(self):
        self.pid = os.getpid()
        self.dir = os.path.join(WORKROOT, f"rules-{os.getpid()}")
        if os.path.isdir(self.dir):
            shutil.rmtree(self.dir)
        shutil.copytree(mcx.RULES, self.dir)
        self.clock = T0

    def tick(self):
        self.clock += 10
        return self.clock


_ENV = None


def env():
    global _ENV
    if _ENV is None or _ENV.pid != os.getpid() or not os.path.isdir(_ENV.dir):       # (a forked worker must not inherit the parent's directory)
        _ENV = Env()
    return _ENV


def config_prefs(cfg, check="All"):
    lang, style, code = CONFIGS[cfg]
    return [["pref", "TTS", "none"], ["pref", "Language", lang], ["pref", "SpeechStyle", style], ["pref", "BrailleCode", code], ["pref", "BrailleNavHighlight", "All"], ["pref", "CheckRuleFiles", check]]


def parse_order(order):
    """order = <when>[@<recovery>]; when in after-load, before-load, after-load-nocall, before-load-nocall, other:<cfgB>;
    recovery: '' = file checking + re-pointing (the strongest repair), 'all' = file checking only (nothing re-pointed),
    'repoint' = re-pointing only (CheckRuleFiles left at its default, Prefs)"""
    when, _, rec = order.partition("@")
    other = None
    if when.startswith("other:"):
        other = when[6:]
        when = "other"
    return when, rec, other


def scenario_ops(e, cfg, rel, kind, payload, order):
    """one scenario = one fresh session. Returns (ops, index map)"""
    D = e.dir
    F = os.path.join(D, rel)
    orig = os.path.join(mcx.RULES, rel)
    when, rec, other = parse_order(order)
    check = "Prefs" if rec == "repoint" else "All"
    ops = [["fs_copy", orig, F], ["fs_mtime", D, T0]]        # start from the pristine file and epoch
    idx = {}
    def fault():
        t = e.tick()
        if kind == "delete":
            return [["fs_delete", F]]
        return [["fs_write", F, payload], ["fs_mtime", F, t]]
    def repair():
        return [["fs_copy", orig, F], ["fs_mtime", F, e.tick()]]
    def init(c=cfg):
        return [["rules_dir", D]] + config_prefs(c, check)
    def recover():
        if rec == "all":
            return []
        return init()
    def mark(name, lst):
        idx[name] = len(ops)
        ops.extend(lst)
    if when == "after-load":
        ops += init()
        mark("base", GETTERS)
        ops += fault()
        mark("faulted", GETTERS)
        mark("faulted2", GETTERS)          # the same calls again while the fault persists
        ops += repair()
        mark("reinit", recover())
        mark("recovered", GETTERS)
    elif when == "before-load":
        ops += fault()
        mark("init", init())
        mark("faulted", GETTERS)
        mark("faulted2", GETTERS)
        ops += repair()
        mark("reinit", recover())
        mark("recovered", GETTERS)
    elif when == "after-load-nocall":
        ops += init()
        mark("base", GETTERS)
        ops += fault()
        ops += repair()
        mark("reinit", recover())
        mark("recovered", GETTERS)
    elif when == "before-load-nocall":
        ops += fault()
        ops += repair()
        mark("reinit", init())
        mark("recovered", GETTERS)
    elif when == "other":
        # the fault is in a file that only configuration `other` reads; the session starts (and keeps returning to) `cfg`
        ops += init()
        mark("base", GETTERS)
        ops += fault()
        ops += config_prefs(other, check)
        mark("faulted", GETTERS)
        ops += config_prefs(cfg, check)
        mark("bystander", GETTERS)
        ops += repair()
        mark("reinit", [["rules_dir", D]] if rec == "repoint" else [])
        ops += config_prefs(other, check)
        mark("recovered", GETTERS)
        ops += config_prefs(cfg, check)
        mark("recovered2", GETTERS)
    else:
        raise ValueError(order)
    ops += [["fs_copy", orig, F], ["fs_mtime", F, T0]]
    return ops, idx


def obs(r):
    r = norm_ids(r)
    return [r[0], r[1] if r[0] == "o" else ""]


def names_file(msg, rel):
    base = os.path.basename(rel)
    return base in msg or rel in msg


def payload_id(payload):
    import hashlib
    return hashlib.sha1((payload or "").encode("utf-8")).hexdigest()[:12] if payload is not None else "-"


def work(item):
    cfg, baselines, scen = item
    baseline = baselines[cfg]
    mc = mcx.worker_mc()
    e = env()
    cases, meta = [], []
    for rel, klass, fname, kind, payload, order in scen:
        ops, idx = scenario_ops(e, cfg, rel, kind, payload, order)
        cases.append(ops)
        if fname == "truncated-mid-entry" and wellformed_list(payload):
            fname = "truncated-at-entry"          # the cut happened to leave a well-formed shorter list
        meta.append((rel, klass, fname, kind, order, idx, payload_id(payload)))
    _, res = mc.run_cases([], cases, fresh=True, keep_going=True, per_case_timeout=60.0)
    viol, counts, nontriv = [], {"evaluations": 0, "calls_under_fault": 0, "errors_naming_file": 0, "ok_unchanged": 0, "ok_changed_allowed": 0, "recovered": 0}, []
    NG = len(GETTERS)
    for (rel, klass, fname, kind, order, idx, pid_), r in zip(meta, res):
        counts["evaluations"] += 1
        when, rec, other = parse_order(order)
        # class of the order for keys: the bystander configuration's name is not part of the class
        oclass = (when if when != "other" else "other-config") + ("@" + rec if rec else "")
        replay = {"cfg": cfg, "file": rel, "class": klass, "fault": fname, "order": order, "payload_id": pid_}
        sig = []
        fclass = {"deleted": "deleted", "empty": "unparsable", "scalar": "unparsable", "map": "unparsable", "not-yaml": "unparsable", "truncated-mid-entry": "unparsable",
                  "prefs-wrong-shape": "unparsable", "truncated-at-entry": "truncated-at-entry"}.get(fname, fname)
        def bad(k, what):
            viol.append((f"C14|{k}|{klass}|{fclass}|{oclass}", f"[{cfg}] {rel} {fname} ({order}): {what}", replay))
        for i, x in enumerate(r):
            if is_panic(x):
                site = x[1] if x[0] == "p" else x[0]
                viol.append((f"C14|panic|{site}|{klass}|{fname}", f"[{cfg}] {rel} {fname} ({order}): call #{i} panicked: {short(x, 160)}", replay))
        base = [obs(x) for x in r[idx["base"]:idx["base"] + NG]] if "base" in idx else baseline
        if "base" in idx and base != baseline:
            bad("baseline-differs", f"the fault-free results in this session differ from the fresh-session baseline: {short(base, 100)}")
            continue
        init_failed = False
        init_call_refused = False
        if "init" in idx:
            for x in r[idx["init"]:idx["faulted"]]:
                if is_err(x) and names_file((x[2] if len(x) > 2 and x[2] else x[1]) or "", rel):
                    init_failed = True       # initialisation already reported the file; what follows runs on an uninitialised library
                if not is_ok(x):
                    init_call_refused = True

        def judge_under_fault(under, ref, label, first_load):
            no_expression = first_load and not is_ok(under[0])     # set_mathml itself was refused: nothing is stored
            nav_failed = any(nm_.startswith("nav:") and not is_ok(x_) for nm_, x_ in zip(GNAMES, under))
            for nm, x, b_ in zip(GNAMES, under, ref):
                if nav_failed and nm == "braille_position" and is_ok(x):
                    # the position of the CURRENT node: a navigation command that failed under the fault did not move there, so the answer is
                    # about another node than the baseline's (a consequence of the reported failure, not a silently different output)
                    counts["position_after_failed_navigation"] = counts.get("position_after_failed_navigation", 0) + 1
                    sig.append("v")
                    continue
                if is_err(x) and init_failed:
                    counts["after_failed_init"] = counts.get("after_failed_init", 0) + 1
                    sig.append("i")
                    continue
                if no_expression and nm != "set_mathml" and is_err(x):
                    counts["no_expression_consequences"] = counts.get("no_expression_consequences", 0) + 1
                    sig.append("n")
                    continue
                counts["calls_under_fault"] += 1
                if is_panic(x):
                    sig.append("p")
                    continue
                o = obs(x)
                if is_err(x):
                    full = (x[2] if len(x) > 2 and x[2] else x[1]) or ""
                    if names_file(full, rel) or (kind == "delete" and "Languages" not in rel and names_file(full, os.path.dirname(rel) or rel)) \
                            or (fname in SHAPE_PRESERVING and ".yaml" in full):
                        counts["errors_naming_file"] += 1
                        sig.append("E")
                    else:
                        sig.append("e")
                        bad(f"error-does-not-name-file|{label}{nm}", f"{label}{nm} failed without naming the file: {short(full.splitlines()[0] if full else '', 140)} … {short(full.splitlines()[-1] if full else '', 100)}")
                elif o == b_:
                    counts["ok_unchanged"] += 1
                    sig.append("=")
                elif fname in SHAPE_PRESERVING or kind == "delete":
                    counts["ok_changed_allowed"] += 1     # a well-formed shorter file / a documented fallback file
                    sig.append("~")
                else:
                    sig.append("!")
                    bad(f"silently-different-output|{label}{nm}", f"{label}{nm} returned Ok with a different result under the fault: {short(o[1], 100)} (baseline {short(b_[1], 100)})")

        if "faulted" in idx:
            judge_under_fault(r[idx["faulted"]:idx["faulted"] + NG], baselines[other] if other else base, "", when == "before-load")
        if "faulted2" in idx:
            # a fault that is still there is still reported: a call that failed must not succeed when it is simply repeated
            r1, r2 = r[idx["faulted"]:idx["faulted"] + NG], r[idx["faulted2"]:idx["faulted2"] + NG]
            for nm, x1, x2 in zip(GNAMES, r1, r2):
                if is_err(x1) and is_ok(x2):
                    bad(f"fault-forgotten|{nm}", f"{nm} failed under the fault ({short(x1, 80)}) but the same call repeated while the fault persists returns {short(obs(x2), 80)}")
                    break
        if "bystander" in idx:
            # calls under the configuration that never reads the faulted file: same rule (an error must name the faulted file, an Ok must be unchanged)
            judge_under_fault(r[idx["bystander"]:idx["bystander"] + NG], baseline, "bystander-configuration:", False)
        reinit = r[idx["reinit"]:idx["recovered"]] if when != "other" else r[idx["reinit"]:idx["reinit"] + (1 if rec == "repoint" else 0)]
        rnames = ["set_rules_dir"] + [p[1] for p in config_prefs(cfg)]
        for nm, x in zip(rnames, reinit):
            if not is_ok(x) and not is_panic(x):
                bad(f"reinit-fails|{nm}", f"after the repair, {nm} still fails: {short(x, 160)}")
                break
        how = {"": "CheckRuleFiles=All and re-pointing the rules directory", "all": "CheckRuleFiles=All (nothing re-pointed)",
               "repoint": "re-pointing the rules directory (CheckRuleFiles=Prefs)"}[rec]
        ok_all = True
        for key_, ref, label in (("recovered", baselines[other] if other else baseline, ""), ("recovered2", baseline, "bystander-configuration:")):
            if key_ not in idx:
                continue
            got = r[idx[key_]:idx[key_] + NG]
            recd = [obs(x) for x in got]
            if recd != ref and rec == "all" and init_call_refused:
                # set_rules_dir / set_preference itself was refused under the fault, so its effect never happened: file checking cannot
                # redo a call the library rejected - the caller has to re-issue it (that is the re-pointing order, checked separately)
                counts["refused_init_needs_reissue"] = counts.get("refused_init_needs_reissue", 0) + 1
                ok_all = False
                continue
            if recd != ref:
                ok_all = False
                k = next((i for i, (a, b_) in enumerate(zip(recd, ref)) if a != b_), 0)
                if not any(is_panic(x) for x in got):
                    bad(f"not-recovered|{label}{GNAMES[k]}", f"after restoring the file (newer time stamp), {how}, {label}{GNAMES[k]} is {short(recd[k] if k < len(recd) else None, 120)}, baseline {short(ref[k], 100)}")
        if ok_all:
            counts["recovered"] += 1
        nontriv.append(hash((cfg, klass, fname, oclass, "".join(sig))))
    return viol, counts, nontriv


def compute_baseline(mc, cfg):
    e = env()
    ops = [["fs_mtime", e.dir, T0], ["rules_dir", e.dir]] + config_prefs(cfg) + GETTERS
    _, res = mc.run_cases([], [ops], fresh=True)
    r = res[0]
    return [obs(x) for x in r[-len(GETTERS):]]


QUICK_FAULTS = ("deleted", "empty", "not-yaml", "truncated-at-entry", "bad-xpath", "wrong-type-definition", "prefs-wrong-shape")
OTHER_PAIRS = {"quick": [("en/ClearSpeak/Nemeth", "es/SimpleSpeak/CMU"), ("es/SimpleSpeak/CMU", "en-gb/ClearSpeak/UEB")],
               "thorough": [(a, b) for a in CONFIGS for b in CONFIGS if a != b]}


def scenarios(tier):
    out = {}
    first = "en/ClearSpeak/Nemeth"
    for cfg, (lang, style, code) in CONFIGS.items():
        if tier == "quick" and cfg != first:
            # the other configurations: only the files that differ from the first one
            files = [f for f in reachable_files(lang, style, code) if not f[0].startswith(("Intent/", "intent.yaml", "prefs.yaml", "definitions.yaml", "Braille/definitions"))]
        else:
            files = reachable_files(lang, style, code)
        sc = []
        for rel, klass in files:
            seen_f = set()
            for fname, kind, payload in faults_for(rel, klass, tier):
                for order in ("after-load", "before-load"):
                    sc.append((rel, klass, fname, kind, payload, order))
                # either repair alone must do (file checking, or re-pointing), and a fault repaired before anybody looked must leave no trace
                if tier == "thorough" or (cfg == first and fname in QUICK_FAULTS and fname not in seen_f):
                    seen_f.add(fname)
                    for order in ("after-load@all", "before-load@all", "after-load@repoint", "before-load@repoint", "after-load-nocall@all", "before-load-nocall"):
                        sc.append((rel, klass, fname, kind, payload, order))
        # faults in files only ANOTHER configuration reads, met by switching to it and back
        mine = {f[0] for f in reachable_files(lang, style, code)}
        for a, b_ in OTHER_PAIRS[tier]:
            if a != cfg:
                continue
            for rel, klass in reachable_files(*CONFIGS[b_]):
                if rel in mine:
                    continue
                seen_f = set()
                for fname, kind, payload in faults_for(rel, klass, tier):
                    if tier == "quick" and (fname not in QUICK_FAULTS or fname in seen_f):
                        continue
                    seen_f.add(fname)
                    for recm in ("all", "repoint"):
                        sc.append((rel, klass, fname, kind, payload, f"other:{b_}@{recm}"))
        out[cfg] = sc
    return out


def dir_scenarios():
    """directory-level faults and the wrong-rules-dir history, as explicit op lists"""
    return []


def confirm(replay, verbose=False):
    mc = mcx.Mc()
    old = mcx._worker_mc
    mcx._worker_mc = mc
    try:
        cfg = replay["cfg"]
        baseline = compute_baseline(mc, cfg)
        baselines = {c: (baseline if c == cfg else compute_baseline(mc, c)) for c in CONFIGS}
        if "dir_history" in replay:
            v, _, _ = work_dirs((cfg, baseline))
            if verbose:
                for k, w, _ in v:
                    print(" ", k, "—", w)
            return {k for k, _, _ in v}
        _, _, other = parse_order(replay["order"])
        lang, style, code = CONFIGS[other or cfg]
        sc = [(rel, klass, fname, kind, payload, order) for rel, klass in reachable_files(lang, style, code) if rel == replay["file"]
              for fname, kind, payload in faults_for(rel, klass, "thorough")
              if (payload_id(payload) == replay["payload_id"] if replay.get("payload_id") else fname == replay["fault"]) for order in (replay["order"],)]
        v, _, _ = work((cfg, baselines, sc))
    finally:
        mcx._worker_mc = old
        mc.close()
    if verbose:
        for k, w, _ in v:
            print(" ", k, "—", w)
    return {k for k, _, _ in v}


def work_dirs(item):
    """directory-level and rules-dir histories"""
    cfg, baseline = item
    mc = mcx.worker_mc()
    e = env()
    D = e.dir
    lang, style, code = CONFIGS[cfg]
    viol, counts = [], {"evaluations": 0}
    init = [["rules_dir", D]] + config_prefs(cfg)
    away = D + ".away"
    hist = {
        "wrong-dir-then-right": [["rules_dir", "/nonexistent/Rules"]] + GETTERS + init + GETTERS,
        "empty-dir-then-repaired": [["fs_rename", D, away], ["fs_copytree", os.path.join(mcx.RULES, "Intent"), os.path.join(D, "Intent")], ["fs_rmtree", os.path.join(D, "Intent")],
                                    ["rules_dir", D]] + GETTERS + [["fs_rmtree", D], ["fs_rename", away, D]] + init + GETTERS,
        "languages-dir-removed": [["fs_rename", os.path.join(D, "Languages"), away]] + init + GETTERS + [["fs_rename", away, os.path.join(D, "Languages")]] + init + GETTERS,
        "braille-dir-removed": [["fs_rename", os.path.join(D, "Braille"), away]] + init + GETTERS + [["fs_rename", away, os.path.join(D, "Braille")]] + init + GETTERS,
        "language-dir-removed-after-load": init + GETTERS + [["fs_rename", os.path.join(D, "Languages", lang.split("-")[0]), away]] + init + GETTERS +
                                           [["fs_rename", away, os.path.join(D, "Languages", lang.split("-")[0])]] + init + GETTERS,
        "code-dir-removed-after-load": init + GETTERS + [["fs_rename", os.path.join(D, "Braille", code), away]] + init + GETTERS +
                                       [["fs_rename", away, os.path.join(D, "Braille", code)]] + init + GETTERS,
        "prefs-deleted-before-first-init": [["fs_rename", os.path.join(D, "prefs.yaml"), away]] + init + GETTERS + [["fs_rename", away, os.path.join(D, "prefs.yaml")]] + init + GETTERS,
    }
    for name, ops in hist.items():
        counts["evaluations"] += 1
        _, res = mc.run_cases([], [[["fs_mtime", D, T0]] + ops], fresh=True, keep_going=True)
        r = res[0][1:]
        # make sure the private directory is whole again whatever happened
        intact = all(os.path.exists(os.path.join(D, x)) for x in ("prefs.yaml", "intent.yaml", "Intent/general.yaml", f"Languages/{lang.split('-')[0]}/unicode.yaml", f"Braille/{code}/unicode.yaml"))
        if not intact or os.path.exists(away):
            for x in (D, away):
                if os.path.isdir(x):
                    shutil.rmtree(x)
                elif os.path.exists(x):
                    os.remove(x)
            shutil.copytree(mcx.RULES, D)
        replay = {"cfg": cfg, "dir_history": name}
        for i, x in enumerate(r):
            if is_panic(x):
                site = x[1] if x[0] == "p" else x[0]
                viol.append((f"C14|panic|{site}|dir|{name}", f"[{cfg}] {name}: call #{i} ({ops[i][0]}) panicked: {short(x, 160)}", replay))
        final = [obs(x) for x in r[-len(GETTERS):]]
        if final != baseline and not any(is_panic(x) for x in r[-len(GETTERS):]):
            k = next(i for i, (a, b_) in enumerate(zip(final, baseline)) if a != b_)
            viol.append((f"C14|not-recovered|dir|{name}|{GNAMES[k]}", f"[{cfg}] {name}: after the repair and re-pointing the rules directory {GNAMES[k]} is {short(final[k], 140)}", replay))
    return viol, counts, []


def _dispatch(job):
    return work_dirs(job[1:]) if job[0] == "D" else work(job)


def main(tier):
    run = Run("C14", tier, "fault_enumeration")
    shutil.rmtree(WORKROOT, ignore_errors=True)
    os.makedirs(WORKROOT, exist_ok=True)
    mc = mcx.Mc()
    old = mcx._worker_mc
    mcx._worker_mc = mc
    baselines = {}
    try:
        for cfg in CONFIGS:
            b1, b2 = compute_baseline(mc, cfg), compute_baseline(mcx.Mc(), cfg)
            if b1 != b2 or not all(x[0] == "o" for x in b1):
                print(f"MACHINERY-ERROR property=C14: baseline for {cfg} unstable or failing: {short(b1, 300)}")
                return 2
            baselines[cfg] = b1
    finally:
        mcx._worker_mc = old
        mc.close()
    sc = scenarios(tier)
    jobs = []
    for cfg, lst in sc.items():
        run.count("scenarios_" + cfg, len(lst))
        for i in range(0, len(lst), 12):
            jobs.append(("F", cfg, baselines, lst[i:i + 12]))
    for cfg in CONFIGS:
        jobs.append(("D", cfg, baselines[cfg]))
    jobs = [j[1:] if j[0] == "F" else j for j in jobs]
    for viol, counts, nontriv in mcx.pmap(_dispatch2, jobs):
        run.merge_violations(viol)
        run.merge_counts(counts)
        for h in nontriv:
            run.nontriv(h)
    shutil.rmtree(WORKROOT, ignore_errors=True)
    run.sample({"scenario": "en/ClearSpeak/Nemeth, Languages/en/unicode-full.yaml truncated-mid-entry, fault after load",
                "calls": "init, 6 calls, write fault (clock+10), 6 calls, restore file (clock+10), init again, 6 calls"})
    run.sample({"dir_history": "empty-dir-then-repaired", "calls": "set_rules_dir(empty dir) -> 6 calls -> repair -> set_rules_dir(same dir) + preferences -> 6 calls == baseline"})
    return run.finish(
        rule="files: every rule file reachable from the configuration (prefs, 3 levels of definitions, intent.yaml + Intent/*, style file and SharedRules, unicode, unicode-full, "
             "navigate, overview, regional files, braille rules/unicode/definitions); fault kinds: deleted, empty, top-level scalar, top-level map, not YAML, truncated at entry "
             "boundaries (quick: 4 per file; thorough: all for files <= 300 entries, else first/last 50 and every 25th), truncated mid-entry, rule with uncompilable XPath, rule "
             "with unknown key, wrongly typed definition, bad character entry, prefs of the wrong shape; orders of fault, call and repair: fault before first load / after load, with and "
             "without calls while the fault is present (the calls are made twice: a call that failed must fail again while the fault persists); recovery by file checking + re-pointing (every scenario), and by each remedy ALONE (file checking only / re-pointing only: "
             "quick - one fault of each kind per file of the first configuration, thorough - all); faults in files that only ANOTHER configuration reads, met by switching to it and "
             "back (calls under the bystander configuration must be unaffected, both configurations must recover; quick 2 ordered pairs, thorough all 6); "
             "7 directory-level histories per configuration (wrong dir, empty dir, Languages/Braille/language/code directory removed, prefs.yaml missing at first init). "
             "distinct_nontrivial = distinct (configuration, file class, fault, order, outcome signature) tuples",
        assumptions=["file times come from a harness counter (File::set_modified); no wall-clock enters the oracle",
                     "under a shape-preserving fault (truncation at an entry boundary) or a deleted file with a documented fallback, any Ok result is accepted",
                     "when set_rules_dir/set_preference itself was refused under the fault, recovery by file checking alone is not demanded (the caller has to re-issue the refused call)"],
        confirm=confirm)


def _dispatch2(job):
    if job[0] == "D":
        return work_dirs(job[1:])
    return work(job)
