"""C18 — mathvariant maps characters to the right Unicode math letters.
Space (complete): every mapped mathvariant value + normal + unknown values x every key of the
library's shift table (Latin, digits, Greek and variant symbols, digammas) + outside characters x
token kinds mi/mn/mo/mtext/ms, single-character tokens and 4-character windows.
Oracle: the Unicode Character Database (python unicodedata), not the library's tables."""
import re, unicodedata as ud
from common import Run, norm_ids, is_ok, val, short
from terms import T, doc, parse_xml
import mcx

STYLES = {
    "bold": "BOLD", "italic": "ITALIC", "bold-italic": "BOLD ITALIC", "double-struck": "DOUBLE-STRUCK",
    "bold-fraktur": "BOLD FRAKTUR", "script": "SCRIPT", "bold-script": "BOLD SCRIPT", "fraktur": "FRAKTUR",
    "sans-serif": "SANS-SERIF", "bold-sans-serif": "SANS-SERIF BOLD", "sans-serif-italic": "SANS-SERIF ITALIC",
    "sans-serif-bold-italic": "SANS-SERIF BOLD ITALIC", "monospace": "MONOSPACE",
}
OTHER_STYLES = ["normal", "initial", "no-such-variant", "BOLD"]   # unmapped / unknown: nothing may change
# letterlike legacy characters: keyword that names the style in the Letterlike Symbols block
LEGACY_WORD = {"script": "SCRIPT", "double-struck": "DOUBLE-STRUCK", "fraktur": "BLACK-LETTER", "italic": None}
# documented fallbacks (statement): style -> style used instead, per class
FALLBACK = {
    "greek": {"bold-script": "bold", "bold-fraktur": "bold"},
    "digit": {"italic": None, "bold-italic": "bold", "sans-serif-italic": "sans-serif",
              "sans-serif-bold-italic": "bold-sans-serif"},
}
LATIN = [chr(c) for c in range(65, 91)] + [chr(c) for c in range(97, 123)]
DIGITS = list("0123456789")
GREEK = list("ΑΒΓΔΕΖΗΘΙΚΛΜΝΞΟΠΡϴΣΤΥΦΧΨΩ∇αβγδεζηθικλμνξοπρςστυφχψω∂ϵϑϰϕϱϖ") + ["Ϝ", "ϝ"]
OUTSIDE = list("=*+é") + ["א", "中", "𝟗", "𝐀", "ℝ", "ℓ", "ı", "ȷ", "Ж", "ø", "∞", "€", "½", "Å", "ß", "ª", "ϐ", "ϗ"]
DIGIT_NAMES = ["ZERO", "ONE", "TWO", "THREE", "FOUR", "FIVE", "SIX", "SEVEN", "EIGHT", "NINE"]
GREEK_SPECIAL = {"∇": "NABLA", "∂": "PARTIAL DIFFERENTIAL", "ϵ": "EPSILON SYMBOL", "ϑ": "THETA SYMBOL", "ϰ": "KAPPA SYMBOL",
                 "ϕ": "PHI SYMBOL", "ϱ": "RHO SYMBOL", "ϖ": "PI SYMBOL", "ϴ": "CAPITAL THETA SYMBOL",
                 "ς": "SMALL FINAL SIGMA", "Ϝ": "CAPITAL DIGAMMA", "ϝ": "SMALL DIGAMMA"}

_LETTERLIKE = [chr(c) for c in range(0x2100, 0x2150)]


def klass(ch):
    if ch in LATIN: return "latin"
    if ch in DIGITS: return "digit"
    if ch in GREEK: return "greek"
    return "outside"


def ucd_char(style, ch):
    """The character Unicode assigns to letter `ch` in mathematical style `style`, or None."""
    word = STYLES[style]
    k = klass(ch)
    if k == "latin":
        tail = ("CAPITAL " if ch.isupper() else "SMALL ") + ch.upper()
    elif k == "digit":
        tail = "DIGIT " + DIGIT_NAMES[int(ch)]
    elif k == "greek":
        if ch in GREEK_SPECIAL:
            tail = GREEK_SPECIAL[ch]
        else:
            nm = ud.name(ch)           # GREEK CAPITAL LETTER ALPHA
            m = re.match(r"GREEK (CAPITAL|SMALL) LETTER (\w+)$", nm)
            tail = f"{m.group(1)} {m.group(2)}"
    else:
        return None
    try:
        return ud.lookup(f"MATHEMATICAL {word} {tail}")
    except KeyError:
        pass
    # the holes: legacy letterlike symbols whose compatibility decomposition is <font> ch
    lw = LEGACY_WORD.get(style, "—")
    if lw == "—":
        return None
    for c in _LETTERLIKE:
        d = ud.decomposition(c)
        if d == f"<font> {ord(ch):04X}":
            nm = ud.name(c, "")
            if lw is None:
                if style == "italic" and c == "ℎ":
                    return c
                continue
            if lw in nm and "BOLD" not in nm:
                if style == "double-struck" and "ITALIC" in nm:
                    continue
                return c
    return None


def expected(style, ch):
    """Set of acceptable result characters for `ch` under mathvariant=`style` (statement of C18)."""
    if style not in STYLES:
        return {ch}
    k = klass(ch)
    if k == "outside":
        return {ch}
    if style == "italic" and k == "latin":
        return {ch}                      # plain italic Latin is the default math style: left as is
    u = ucd_char(style, ch)
    if u is not None:
        return {u}
    fb = FALLBACK.get(k, {}).get(style, "—")
    if fb not in ("—", None):
        f = ucd_char(fb, ch)
        if f is not None:
            return {f, ch}               # nearest documented style, or unchanged
    return {ch}


INVISIBLE = "⁡⁢⁣⁤"


def out_text(canon):
    t = parse_xml(canon)
    out = []
    for _, n in t.walk():
        if n.tag in ("mi", "mn", "mo", "mtext", "ms") and n.text:
            out.append(n.text)
    s = "".join(out)
    return "".join(c for c in s if c not in INVISIBLE and not c.isspace())


def cases():
    dom = LATIN + DIGITS + GREEK + OUTSIDE
    for style in list(STYLES) + OTHER_STYLES:
        for kind in ("mi", "mn", "mo", "mtext", "ms"):
            for ch in dom:
                yield (style, kind, ch)
            for i in range(0, len(dom) - 3, 4):
                yield (style, kind, "".join(dom[i:i + 4]))


def key_of(style, kind, ch, got):
    return f"C18|{style}|U+{ord(ch):04X}|got:U+{ord(got):04X}" if got else f"C18|{style}|U+{ord(ch):04X}|lost"


def check_case(mc, case_list):
    """Returns (violations, counters, images) for a list of (style, kind, text)."""
    setup = [["rules_dir", mcx.RULES]]
    ops = [[["mathml", doc(T(kind, text=text, mathvariant=style))]] for style, kind, text in case_list]
    _, res = mc.run_cases(setup, ops)
    viol, images = [], []
    n_changed = 0
    for (style, kind, text), r in zip(case_list, res):
        r = r[0]
        replay = {"style": style, "kind": kind, "text": text}
        if not is_ok(r):
            viol.append((f"C18|{style}|{kind}|set_mathml-failed", f"set_mathml failed for mathvariant={style} <{kind}>{text}: {short(r)}", replay))
            continue
        got = out_text(val(r))
        if len(got) != len(text):
            viol.append((f"C18|{style}|{kind}|length", f"<{kind} mathvariant={style}>{text} came back as {got!r}", replay))
            continue
        if got != text:
            n_changed += 1
        for a, g in zip(text, got):
            exp = expected(style, a)
            if ud.name(g, None) is None:
                viol.append((f"C18|{style}|U+{ord(a):04X}|unassigned", f"{a!r} under {style} gave unassigned U+{ord(g):04X}", replay))
            elif g not in exp:
                viol.append((key_of(style, kind, a, g), f"<{kind} mathvariant={style}>: {a!r} became {g!r} (U+{ord(g):04X}), UCD says {sorted(exp)}", replay))
            if len(text) == 1:
                images.append((style, kind, a, g))
    return viol, n_changed, images


def _work(chunk):
    return check_case(mcx.worker_mc(), chunk)


def collisions(images):
    """Injectivity per style (and token kind) over the letters of the table: no two different
    source characters share an image.  (Characters outside the table map to themselves and are not
    part of the one-to-one claim: an already-bold digit is not 'recovered' to an ASCII one.)"""
    inj = {}
    for style, kind, a, g in images:
        if klass(a) != "outside":
            inj.setdefault((style, kind), {}).setdefault(g, set()).add(a)
    out = []
    for (style, kind), m in inj.items():
        for g, srcs in m.items():
            if len(srcs) > 1:
                s = sorted(srcs)
                out.append((f"C18|{style}|collision|U+{ord(g):04X}", f"mathvariant={style}: {s} all map to {g!r}",
                            {"style": style, "kind": kind, "text": s}))
    return out


def confirm(replay, verbose=False):
    mc = mcx.Mc()
    try:
        texts = replay["text"] if isinstance(replay["text"], list) else [replay["text"]]
        v, _, images = check_case(mc, [(replay["style"], replay["kind"], t) for t in texts])
        v = v + collisions(images)
    finally:
        mc.close()
    if verbose:
        for k, w, _ in v:
            print(" ", k, "—", w)
    return {k for k, _, _ in v}


def main(tier):
    run = Run("C18", tier, "exploration")
    allc = list(cases())
    chunks = [allc[i:i + 400] for i in range(0, len(allc), 400)]
    # determinism gate: first chunk twice, in two different executor processes
    g1 = check_case(mcx.Mc(), chunks[0][:100])
    g2 = check_case(mcx.Mc(), chunks[0][:100])
    if g1 != g2:
        print("MACHINERY-ERROR property=C18: determinism gate failed")
        return 2
    all_images = []
    for viol, n_changed, images in mcx.pmap(_work, chunks):
        run.merge_violations(viol)
        run.count("changed_tokens", n_changed)
        for style, kind, a, g in images:
            run.count("evaluations")
            if g != a:
                run.nontriv((style, a, g))
        all_images.extend(images)
    run.count("evaluations", sum(1 for c in allc if len(c[2]) > 1))
    run.merge_violations(collisions(all_images))
    for c in (allc[3], allc[700], allc[-1]):
        run.sample({"mathvariant": c[0], "token": c[1], "text": c[2]})
    return run.finish(
        rule="complete product: (13 mapped + 4 unmapped/unknown mathvariant values) x (52 Latin, 10 digits, 60 Greek/variant "
             "symbols incl. digammas, 22 outside characters) x {mi,mn,mo,mtext}, single characters and 4-character windows; "
             "distinct_nontrivial = distinct (style, source, image) triples where the image differs from the source",
        assumptions=["python unicodedata (UCD %s) is the reference for letter identity" % ud.unidata_version,
                     "the token is the only child of <math>, so no neighbouring-token rewrite can interfere"],
        confirm=confirm)
