"""C08 — no API call crashes the host; errors are reported and recoverable.
Families: (a) set_mathml arguments — every corpus document truncated at every byte, every element renamed to every
MathML element name and a foreign one, deviation-bounded degenerate children (the C01 space incl. the library's own
marker attributes), token-text oddities, nesting ladders; (b) after each accepted input every getter, every
navigation command (from the root and after ZoomInAll), key codes x modifiers, set_navigation_node over ids x
offsets, node-from-braille over positions; (c) all call sequences up to a length over an alphabet of
initialisation / expression / getter / preference classes; (d) set_preference over every name x value and
same-name value pairs.  Oracle: every call returns a value or an error (no panic, abort or time-out) and after
any error a valid expression gives the fresh-session results."""
import itertools, json, os, re
from common import Run, norm_ids, is_ok, is_err, is_panic, val, short
import terms, mcx, canon_run
from terms import T, mi, mn, mo, mtext, row, el
from props import c11, c12

VALID = terms.doc(row(mi("x"), mo("+"), el("mfrac", mn("1"), mn("2"))))
RECOVER = [["mathml", VALID], ["speech"], ["braille", ""], ["nav", "ZoomIn"]]
ELEMENTS = ["math", "mi", "mn", "mo", "mtext", "ms", "mspace", "mglyph", "mrow", "mfrac", "msqrt", "mroot", "mstyle", "merror", "mpadded", "mphantom", "mfenced", "menclose",
            "msub", "msup", "msubsup", "munder", "mover", "munderover", "mmultiscripts", "mprescripts", "none", "mtable", "mtr", "mlabeledtr", "mtd", "maligngroup", "malignmark",
            "mstack", "mlongdiv", "msgroup", "msrow", "mscarries", "mscarry", "msline", "maction", "semantics", "annotation", "annotation-xml", "foo", "svg", "apply"]
TEXTS = ["", " ", " ", "\t\n", "a", "ab", "é", "中", "𝒳", "x́", "́", "⁡", "​", "&amp;", "<", "a" * 10000, "1" * 10000, "9" * 25, "1e999", "-", "--", "'",
         "﻿", "\U000e0001", "퟿", "", "٣", "Ⅻ", "½", "1,2,3,4,5", "...", "1.2.3", "−", "∞"]

_SRC = {}


def source_line(site):
    """trimmed source text of a panic site 'path:line' (read from /repo at run time, so line shifts do not change the key)"""
    m = re.match(r"(.*?):(\d+)$", site)
    if not m:
        return site
    path, n = m.group(1), int(m.group(2))
    if not path.startswith("/"):
        path = os.path.join("/repo", path)
    if path.startswith("/repo/src/"):
        path = os.path.join(mcx.SRC, path[len("/repo/src/"):])
    if path not in _SRC:
        try:
            _SRC[path] = open(path, encoding="utf-8").read().split("\n")
        except OSError:
            _SRC[path] = []
    lines = _SRC[path]
    txt = lines[n - 1].strip() if 0 < n <= len(lines) else "?"
    base = path.replace(mcx.SRC + "/", "src/").replace("/repo/", "")
    if not (path.startswith("/repo/") or path.startswith(mcx.SRC + "/")):
        base = "dep:" + "/".join(path.split("/")[-3:])
    return f"{base}|{txt[:110]}"


def opclass(op):
    return {"mathml": "set_mathml", "speech": "get_spoken_text", "overview": "get_overview_text", "braille": "get_braille", "navbraille": "get_navigation_braille",
            "nav": "do_navigate_command", "key": "do_navigate_keypress", "setnav": "set_navigation_node", "navmml": "get_navigation_mathml", "navid": "get_navigation_mathml_id",
            "brpos": "get_braille_position", "nodeat": "get_navigation_node_from_braille_position", "pref": "set_preference", "getpref": "get_preference",
            "rules_dir": "set_rules_dir"}.get(op[0], op[0])


def judge(family, label, ops, res, baseline, nrec):
    """-> violations for one case: panics/aborts/timeouts, and recovery after errors"""
    out = []
    saw_err = False
    for i, (op, r) in enumerate(zip(ops, res)):
        if r[0] == "p":
            sl = source_line(r[1])
            if "|panic!(\"as_element" in sl or "|panic!(\"as_text" in sl:
                # a shared accessor (as_element / as_text) panics for whoever called it with the wrong kind of child: the source line says nothing
                # about the caller, so the input family and the shape class of the input are part of the key - another caller is another finding
                lc_ = label_class(label)
                # renamed element: by the name it got (a text child under that name is what the accessor meets); deviations: by the deviation
                # operators, without the construct they were applied to
                cls_ = "to:" + label.split("->")[-1] if family == "rename" else lc_.split("|", 1)[1] if "|" in lc_ else lc_
                sl = f"{sl[:60]}|{family}|{cls_}"
            out.append((f"C08|panic|{opclass(op)}|{sl}", f"{family} {label}: {opclass(op)} panicked at {r[1]}: {short(r[2] if len(r) > 2 else '', 120)}"))
            return out, True
        if r[0] in ("abort", "timeout"):
            out.append((f"C08|{r[0]}|{family}|{label_class(label)}", f"{family} {label}: the process {'died' if r[0] == 'abort' else 'did not answer within the watchdog'} in this case ({r[1] if len(r) > 1 else ''})"))
            return out, True
        if r[0] == "e" and i < len(ops) - nrec:
            saw_err = True
    if nrec and saw_err:
        rec = [norm_ids(x[:2]) for x in res[-nrec:]]
        if rec != baseline:
            k = next(i for i, (a, b_) in enumerate(zip(rec, baseline)) if a != b_)
            out.append((f"C08|not-recovered|{family}|{opclass(RECOVER[k])}", f"{family} {label}: after an error, {opclass(RECOVER[k])} on a valid expression returns {short(rec[k], 120)}, a fresh session {short(baseline[k], 100)}"))
    return out, False


def label_class(label):
    return re.sub(r"\d+", "N", label)[:60]


WATCHDOG = 15.0


def run_isolated(mc, setup, oplists):
    """one request per case with the watchdog as its time-out (for families where dying or hanging is expected)"""
    res = []
    for ops in oplists:
        try:
            r = mc.run({"setup": setup, "cases": [ops]}, timeout=WATCHDOG)
            res.append(r["cases"][0])
        except mcx.McDied as e:
            res.append([[e.kind, e.detail]] + [["x"]] * (len(ops) - 1))
    return res


def work(item):
    family, setup, cases, use_recover = item
    mc = mcx.worker_mc()
    nrec = len(RECOVER) if use_recover else 0
    oplists = [ops + (RECOVER if use_recover else []) for _, ops in cases]
    if family == "ladder":
        res = run_isolated(mc, setup, oplists)
    else:
        _, res = mc.run_cases(setup, oplists, per_case_timeout=WATCHDOG)
    viol, counts, nontriv = [], {"evaluations": 0, "calls": 0, "panics": 0, "errors": 0}, []
    for (label, ops), full, r in zip(cases, oplists, res):
        counts["evaluations"] += 1
        counts["calls"] += len(full)
        counts["errors"] += sum(1 for x in r if x[0] == "e")
        v, crashed = judge(family, label, full, r, BASELINE[0], nrec)
        if crashed:
            counts["panics"] += 1
        nontriv.append(hash((family, "".join(x[0][0] for x in r))) ^ hash(label_class(label)))
        for k, w in v:
            viol.append((k, w, {"family": family, "setup": setup, "ops": full, "label": label}))
    return viol, counts, nontriv


BASELINE = [None]


def confirm(replay, verbose=False):
    mc = mcx.Mc()
    old = mcx._worker_mc
    mcx._worker_mc = mc
    try:
        if replay.get("family") == "recover-under-prefs":
            v3, _, _ = work_rup(("__rup__", [tuple(replay["pair"])]))
            if verbose:
                for k, w, _ in v3:
                    print(" ", k, "—", w)
            return {k for k, _, _ in v3}
        compute_baseline(mc)
        nrec = len(RECOVER) if replay["ops"][-len(RECOVER):] == RECOVER else 0
        res = run_isolated(mc, replay["setup"], [replay["ops"]])
        v, _ = judge(replay["family"], replay["label"], replay["ops"], res[0], BASELINE[0], nrec)
    finally:
        mcx._worker_mc = old
        mc.close()
    if verbose:
        for k, w in v:
            print(" ", k, "—", w)
    return {k for k, _ in v}


def compute_baseline(mc):
    _, res = mc.run_cases(SETUP, [RECOVER], fresh=True)
    BASELINE[0] = [norm_ids(x[:2]) for x in res[0]]
    return BASELINE[0]


SETUP = [["rules_dir", mcx.RULES], ["pref", "TTS", "none"]]
GET_ALL = [["speech"], ["overview"], ["braille", ""], ["navbraille"], ["navmml"], ["navid"], ["brpos"], ["nodeat", 0], ["nodeat", 3], ["nodeat", "MAX"],
           ["nav", "ZoomIn"], ["nav", "MoveNext"], ["nav", "ReadCurrent"], ["nav", "DescribeCurrent"], ["nav", "MoveLastLocation"], ["setnav", {"r": 5, "k": 0}, 1]]


# ------------------------------------------------------------------------------------------------------------------
# families

def fam_truncations(tier):
    docs = [VALID] + [terms.doc(t) for _, t in canon_run.special_terms()[::(6 if tier == "quick" else 1)]]
    docs.append('<?xml version="1.0"?><m:math xmlns:m="http://www.w3.org/1998/Math/MathML"><m:mi class="MJX-x">&alpha;</m:mi><!-- c --><m:mo>&#x2062;</m:mo><m:mn>2</m:mn></m:math>')
    cases = []
    for di, d in enumerate(docs):
        b = d.encode("utf-8")
        for n in range(0, len(b) + 1):
            s = b[:n].decode("utf-8", "ignore")
            cases.append((f"doc{di}@{n}", [["mathml", s], ["speech"]]))
    return "truncation", SETUP, cases, True


def fam_rename(tier):
    cases = []
    base = [(terms.shape_name(sh), terms.build(sh, terms.Filler("mixed"))) for sh in terms.spine_shapes(1)]
    base += [("special:" + n, t) for n, t in canon_run.special_terms()[::(4 if tier == "quick" else 1)]]
    for label, t in base:
        for path, node in list(t.walk()):
            for name in ELEMENTS:
                if name == node.tag:
                    continue
                c = t.copy()
                c.at(path).tag = name
                cases.append((f"{label}|rename:{node.tag}->{name}", [["mathml", terms.doc(c)]] + GET_ALL[:6]))
    return "rename", SETUP, cases, True


def fam_deviations(tier):
    cases = [(label, [["mathml", terms.doc(t)]] + GET_ALL) for label, t in canon_run._gen_cases(tier if tier == "thorough" else "quick")]
    if tier == "quick":
        cases = cases[::2]
    return "deviation", SETUP, cases, True


def fam_texts(tier):
    cases = []
    hosts = [lambda k: k, lambda k: row(mi("a"), k, mi("b")), lambda k: el("msup", k, mn("2")), lambda k: el("msup", mi("x"), k), lambda k: el("mfrac", k, k.copy()),
             lambda k: el("mover", mi("AB"), k), lambda k: row(mn("1"), k, mn("234")), lambda k: el("mtable", el("mtr", el("mtd", k))), lambda k: el("mmultiscripts", mi("x"), k, T("none"))]
    for txt in TEXTS:
        for kind in ("mi", "mn", "mo", "mtext", "ms"):
            for hi, h in enumerate(hosts):
                for mv in (None, "bold", "sans-serif-bold-italic", "script"):
                    k = T(kind, text=txt)
                    if mv:
                        k.attrs["mathvariant"] = mv
                    cases.append((f"text:{TEXTS.index(txt)}:{kind}:host{hi}:{mv}", [["mathml", terms.doc(h(k))]] + GET_ALL[:7]))
    if tier == "quick":
        cases = cases[::3]
    return "token-text", SETUP, cases, True


def fam_codes(tier):
    """every getter under every braille code / language for a corpus of trigger terms"""
    out = []
    corpus = [("special:" + n, t) for n, t in canon_run.special_terms()[::(3 if tier == "quick" else 1)]]
    for code, lang in (("Nemeth", "en"), ("UEB", "en"), ("CMU", "es"), ("Vietnam", "vi"), ("Swedish", "sv"), ("LaTeX", "en"), ("ASCIIMath", "fi"), ("ASCIIMath-fi", "fi"), ("Finnish", "fi")):
        setup = SETUP + [["pref", "BrailleCode", code], ["pref", "Language", lang]]
        cases = [(f"{code}:{label}", [["mathml", terms.doc(t)]] + GET_ALL) for label, t in corpus]
        for mv in ("sans-serif-bold-italic", "bold-script", "double-struck", "monospace"):
            for ch in "AZaz09Γω":
                cases.append((f"{code}:variant:{mv}:{ch}", [["mathml", terms.doc(row(mi(ch, mathvariant=mv), mo("+"), mn("1")))], ["braille", ""], ["speech"]]))
        out.append(("codes", setup, cases, False))
    return out


def fam_ladders(tier):
    cases = []
    wrap = {"mrow": lambda x: f"<mrow>{x}</mrow>", "msqrt": lambda x: f"<msqrt>{x}</msqrt>", "mfrac": lambda x: f"<mfrac>{x}<mn>2</mn></mfrac>", "msup": lambda x: f"<msup>{x}<mn>2</mn></msup>",
            "msup-exp": lambda x: f"<msup><mi>x</mi>{x}</msup>", "paren": lambda x: f"<mrow><mo>(</mo>{x}<mo>)</mo></mrow>", "mstyle": lambda x: f"<mstyle>{x}</mstyle>",
            "mtable": lambda x: f"<mtable><mtr><mtd>{x}</mtd></mtr></mtable>", "mover": lambda x: f"<mover>{x}<mo>¯</mo></mover>", "semantics": lambda x: f"<semantics>{x}</semantics>",
            "mmultiscripts": lambda x: f"<mmultiscripts>{x}<mn>1</mn><mn>2</mn></mmultiscripts>", "neg": lambda x: f"<mrow><mo>-</mo>{x}</mrow>"}
    # (measured on the unchanged tree: nested script bases double the time per level -- 4 s at depth 24, minutes at 28 -- and most
    #  constructs overflow the 8 MiB stack between 1000 and 3000 levels, taking up to a minute to do so)
    depths = [10, 24, 40, 300] + ([1000, 3000] if tier == "thorough" else [])
    for name, w in wrap.items():
        for d in depths:
            s = "<mi>x</mi>"
            for _ in range(d):
                s = w(s)
            cases.append((f"ladder:{name}:{d}", [["mathml", f"<math>{s}</math>"], ["speech"], ["braille", ""], ["nav", "ZoomInAll"], ["overview"]]))
    # wide rows
    for n in (10, 1000) + ((20000,) if tier == "thorough" else (3000,)):
        cases.append((f"wide:sum:{n}", [["mathml", "<math><mrow>" + "<mo>+</mo>".join(["<mi>x</mi>"] * n) + "</mrow></math>"], ["speech"], ["braille", ""]]))
        cases.append((f"wide:juxt:{n}", [["mathml", "<math><mrow>" + "<mi>x</mi>" * n + "</mrow></math>"], ["speech"]]))
        cases.append((f"wide:digits:{n}", [["mathml", "<math><mrow>" + "<mn>1</mn><mo>,</mo>" * n + "<mn>2</mn></mrow></math>"], ["speech"]]))
    return "ladder", SETUP, cases, False


def fam_navigation(tier):
    cases = []
    exprs = [terms.doc(c11.RAW[0]), terms.doc(c11.RAW[1]), terms.doc(c11.RAW[3]), VALID, terms.doc(T("mrow"))]
    cmds = c11.FULL + ["Exit", "MoveTo9", "Read9", "Describe9", "SetPlacemarker9", "ReadLineStart", "ReadLineEnd", "ReadStart", "ReadEnd", "NoSuchCommand", "", "zoomin"]
    for ei, e in enumerate(exprs):
        for c in cmds:
            cases.append((f"nav:E{ei}:{c}", [["mathml", e], ["nav", c], ["navid"], ["navmml"], ["nav", "ZoomInAll"], ["nav", c], ["navid"], ["nav", c], ["nav", "MoveLastLocation"]]))
        keys = list(range(0, 256)) + [65535, "MAX"] if (tier == "thorough" or ei == 0) else [8, 9, 13, 27, 32, 33, 34, 35, 36, 37, 38, 39, 40, 48, 49, 57, 65, 90, 112, 255, "MAX"]
        for k in keys:
            for mods in itertools.product([False, True], repeat=4):
                cases.append((f"key:E{ei}:{k}:{''.join('1' if m else '0' for m in mods)}", [["mathml", e], ["key", k] + list(mods), ["navid"]]))
        ids = ["", "no-such-id", "!not set"]
        for off in (0, 1, 2, 3, 100, "MAX"):
            for i in ids:
                cases.append((f"setnav:E{ei}:{i}:{off}", [["mathml", e], ["setnav", i, off], ["navid"], ["brpos"], ["nav", "MoveNext"], ["braille", i]]))
            cases.append((f"setnav:E{ei}:root:{off}", [["mathml", e], ["navid"], ["setnav", {"r": 1, "k": 0}, off], ["navid"], ["brpos"], ["navbraille"], ["nav", "MoveNext"], ["nav", "ZoomIn"], ["brpos"]]))
            cases.append((f"setnav:E{ei}:leaf:{off}", [["mathml", e], ["nav", "ZoomInAll"], ["navid"], ["setnav", {"r": 2, "k": 0}, off], ["navid"], ["brpos"], ["navbraille"], ["nav", "MoveNext"],
                                                       ["nav", "MovePrevious"], ["nav", "ReadCurrent"], ["brpos"]]))
        for p in list(range(0, 40)) + [1000, "MAX"]:
            cases.append((f"nodeat:E{ei}:{p}", [["mathml", e], ["nodeat", p], ["navid"]]))
    return "navigation", SETUP, cases, True


NAV_WALK = (["ZoomInAll"] + ["MoveNext"] * 6 + ["MovePrevious"] * 3 + ["ZoomOut", "ZoomIn", "MoveNext", "ReadCurrent", "DescribeCurrent", "WhereAmI", "MoveEnd", "MovePrevious", "ReadPrevious",
            "MoveStart", "ReadNext", "DescribeNext", "ZoomOutAll", "ZoomIn", "ZoomIn", "MoveCellNext", "MoveCellDown", "MoveColumnStart", "MoveLineEnd", "MoveLastLocation", "WhereAmIAll",
            "ToggleSpeakMode", "MoveNext", "MovePrevious", "ToggleZoomLockDown", "MoveNext", "ZoomOut"])


def fam_navwalk(tier):
    """a fixed walk of %d navigation commands over every depth-1 term, trigger term and single deviation with missing/empty parts, in each navigation mode"""
    corp = []
    for sh in terms.spine_shapes(1):
        corp.append((terms.shape_name(sh), terms.build(sh, terms.Filler("mixed"))))
    for name, t in canon_run.special_terms():
        corp.append(("special:" + name, t))
    keep = ("none", "mprescripts", "empty-mrow", "empty-mi", "empty-mo", "delete", "mspace", "mphantom", "dup", "ins-emptybase-sup", "ins-emptybase-subsup", "wrap-mrow")
    base = list(corp) if tier == "thorough" else [c for c in corp if not c[0].startswith("special:")]
    for label, t in base:
        for dl, dt in terms.deviations(t):
            if dl.split("@")[0] in keep:
                corp.append((label + "|" + dl, dt))
    cases = []
    for mode in ("Enhanced", "Simple", "Character"):
        for label, t in corp:
            cases.append((f"navwalk:{mode}:{label}", [["pref", "NavMode", mode], ["mathml", terms.doc(t)]] + [["nav", c] for c in NAV_WALK] + [["navid"], ["navmml"], ["brpos"]]))
    return "navwalk", SETUP, cases, True


fam_navwalk.__doc__ = fam_navwalk.__doc__ % len(NAV_WALK)


def fam_histories(tier):
    alpha = {
        "no-rules-dir": ["rules_dir", ""], "bad-rules-dir": ["rules_dir", "/nonexistent"], "good-rules-dir": ["rules_dir", mcx.RULES],
        "bad-xml": ["mathml", "<math><mi>x</mi"], "not-mathml": ["mathml", "<svg><rect/></svg>"], "bad-arity": ["mathml", "<math><mfrac><mi>x</mi></mfrac></math>"],
        "empty-string": ["mathml", ""], "good-expr": ["mathml", VALID], "speech": ["speech"], "braille": ["braille", ""], "overview": ["overview"], "navid": ["navid"], "navmml": ["navmml"],
        "brpos": ["brpos"], "nodeat": ["nodeat", 1], "nav": ["nav", "ZoomIn"], "key": ["key", 39, False, False, False, False], "setnav": ["setnav", "x", 0], "navbraille": ["navbraille"],
        "pref-string": ["pref", "Language", "es"], "pref-bool": ["pref", "Bookmark", "true"], "pref-number": ["pref", "Pitch", "abc"], "pref-unknown": ["pref", "Nope", "1"],
        "pref-badlang": ["pref", "Language", "klingon"], "getpref": ["getpref", "Language"], "getpref-unknown": ["getpref", "Nope"],
    }
    names = list(alpha)
    depth = 3 if tier == "quick" else 4
    cases = []
    for d in range(1, depth + 1):
        pool = names if d <= 3 else [n for n in names if n in ("no-rules-dir", "bad-rules-dir", "good-rules-dir", "bad-xml", "bad-arity", "good-expr", "speech", "braille", "nav", "nodeat", "brpos",
                                                                 "pref-string", "pref-number", "pref-badlang", "setnav")]
        for seq in itertools.product(pool, repeat=d):
            cases.append(("hist:" + ">".join(seq), [alpha[n] for n in seq]))
    return "history", [], cases, False


def fam_intents(tier):
    """nested intent attributes (outer on a row, inner on a child, with and without arg=), both recovery settings"""
    outer = [":structure", ":p", ":p:q", "f($a,$b)", "f($a)", "$a", "$zz", "f(", "f(,)", "", "_", "_($a,$b)", "f($a)($b)", "2", "f:p($a)", "binomial($a,$b)", "foo-bar"]
    inner = ["g($c)", "g(", "$nope", "", ":q", "g(,)", "h", "_", "$c", "g($c)(", "@", "3.5", "g:unit"]
    out = []
    for mode in ("IgnoreIntent", "Error"):
        cases = []
        for o in outer:
            for i in inner:
                for where in ("arg-child", "plain-child", "grandchild", "self-ref"):
                    q = lambda v: v.replace("&", "&amp;").replace("<", "&lt;").replace('"', "&quot;")
                    if where == "arg-child":
                        d = f'<math><mrow intent="{q(o)}"><mi arg="a" intent="{q(i)}">a</mi><mo>+</mo><mi arg="b">b</mi></mrow></math>'
                    elif where == "plain-child":
                        d = f'<math><mrow intent="{q(o)}"><mi arg="a">a</mi><mo>+</mo><mi intent="{q(i)}">b</mi></mrow></math>'
                    elif where == "grandchild":
                        d = f'<math><mrow intent="{q(o)}"><msup arg="a"><mi arg="c" intent="{q(i)}">x</mi><mn>2</mn></msup><mo>+</mo><mi arg="b">b</mi></mrow></math>'
                    else:
                        d = f'<math><mrow arg="a" intent="{q(o)}"><mi arg="a" intent="$a">a</mi><mo>+</mo><mi arg="b" intent="{q(i)}">b</mi></mrow></math>'
                    cases.append((f"intent:{mode}:{outer.index(o)}:{inner.index(i)}:{where}", [["mathml", d], ["speech"], ["speech"], ["braille", ""], ["overview"], ["nav", "ZoomIn"], ["nav", "MoveNext"], ["navmml"]]))
        out.append(("intent", SETUP + [["pref", "IntentErrorRecovery", mode]], cases, True))
    return out


def fam_prefs(tier):
    kinds = c12.known_prefs()
    names = sorted(kinds) + ["NoSuchPreference", ""]
    vals = c12.GENERIC + ["1e999", "NaN", "\u0000".replace("\u0000", "x́"), "a" * 5000, "en-gb-x-y", "-", "٣", "ClearSpeak", "Nemeth"]
    cases = []
    for n in names:
        for v in vals:
            cases.append((f"pref:{n}={vals.index(v)}", [["pref", n, v], ["getpref", n]] + RECOVER))
        for v1, v2 in itertools.product(["true", "7", "abc", ""], repeat=2):
            cases.append((f"pref2:{n}", [["pref", n, v1], ["pref", n, v2], ["getpref", n]] + RECOVER[:2]))
    return "preference", [["rules_dir", mcx.RULES]], cases, False


def main(tier):
    run = Run("C08", tier, "exploration")
    mc = mcx.Mc()
    b1 = compute_baseline(mc)
    b2 = [norm_ids(x[:2]) for x in mcx.Mc().run_cases(SETUP, [RECOVER], fresh=True)[1][0]]
    mc.close()
    if b1 != b2 or not all(x[0] == "o" for x in b1):
        print("MACHINERY-ERROR property=C08: baseline unstable or failing:", short(b1, 200))
        return 2
    only = os.environ.get("VERIF_C08_FAMILY")
    fams = [fam_truncations(tier), fam_rename(tier), fam_deviations(tier), fam_texts(tier), fam_ladders(tier), fam_navigation(tier), fam_navwalk(tier), fam_histories(tier), fam_prefs(tier)] + fam_codes(tier) + fam_intents(tier)
    jobs = []
    import time as _t
    for family, setup, cases, rec in fams:
        if only and family != only:
            continue
        run.count("cases_" + family, len(cases))
        step = 1 if family == "ladder" else 250
        fresh_needed = family in ("history", "preference")
        for i in range(0, len(cases), step):
            jobs.append((family, setup, cases[i:i + step], rec) if not fresh_needed else ("__fresh__", family, setup, cases[i:i + step], rec))
    if not only or only == "recover-under-prefs":
        pairs = [(pi, fi) for pi in range(len(RUP_PREFS)) for fi in range(len(RUP_FAILS))]
        run.count("cases_recover-under-prefs", len(pairs))
        for i in range(0, len(pairs), 12):
            jobs.append(("__rup__", pairs[i:i + 12]))
    for viol, counts, nontriv in mcx.pmap(_dispatch, jobs):
        run.merge_violations(viol)
        run.merge_counts(counts)
        for h in nontriv:
            run.nontriv(h)
    run.sample({"family": "truncation", "case": "doc3@57", "calls": ["set_mathml(<first 57 bytes>)", "get_spoken_text", "set_mathml(valid)", "speech", "braille", "ZoomIn"]})
    run.sample({"family": "history", "case": "bad-rules-dir > nodeat > good-expr"})
    run.sample({"family": "ladder", "case": "msup nested 3000 deep"})
    return run.finish(
        rule="families: truncation of every corpus document at every byte; every element of every depth-1 / trigger term renamed to each of %d element names; the C01 deviation space "
             "(incl. the library's own marker attributes); %d token texts x 5 token kinds x 9 hosts x 4 mathvariants; nesting ladders (12 constructs x depths 10, 24, 40, 300%s) and wide rows; navigation: "
             "%d commands x 5 expressions (from the root and after ZoomInAll), key codes x 16 modifier sets, set_navigation_node over ids x offsets incl. usize::MAX, node-from-braille over "
             "positions x 2 codes; a fixed %d-command navigation walk over every depth-1 term, trigger term and deviation with missing/empty parts in 3 navigation modes; all call sequences of length <= %d over a 26-class alphabet (each in a fresh session); every preference name x 19 values and same-name pairs; "
             "trigger terms under 9 braille code names; nested intent attributes (17 outer x 13 inner values x 4 placements x both recovery settings). After every case a valid expression is set and compared with the fresh-session results; "
             "and 27 failing call sequences (every entry point without an expression, bad arguments, failed set_mathml) under 7 NON-default preference sets, each followed by a valid "
             "expression with speech, plain and highlighted braille, navigation, positions and the preferences read back, compared with the same session without the failing calls. "
             "distinct_nontrivial = distinct (family, label class, outcome signature) combinations"
             % (len(ELEMENTS), len(TEXTS), "" if tier == "quick" else ", 1000, 3000", len(c11.FULL) + 12, len(NAV_WALK), 3 if tier == "quick" else 4),
        assumptions=["'fails to terminate' is checked as 'no case exceeds the 15 s watchdog'",
                     "overflow checks are on in the executor build: an arithmetic wrap shows up as a panic labelled 'attempt to ... with overflow'",
                     "worker stacks are 8 MiB (a main-thread sized stack)"],
        confirm=confirm)


def work_fresh(item):
    _, family, setup, cases, rec = item
    mc = mcx.worker_mc()
    oplists = [setup + ops for _, ops in cases]
    _, res = mc.run_cases([], oplists, fresh=True, per_case_timeout=15.0)
    viol, counts, nontriv = [], {"evaluations": 0, "calls": 0, "panics": 0, "errors": 0}, []
    for (label, ops), full, r in zip(cases, oplists, res):
        counts["evaluations"] += 1
        counts["calls"] += len(full)
        counts["errors"] += sum(1 for x in r if x[0] == "e")
        v, crashed = judge(family, label, full, r, BASELINE[0], 0)
        if crashed:
            counts["panics"] += 1
        nontriv.append(hash((family, "".join(x[0][0] for x in r))))
        for k, w in v:
            viol.append((k, w, {"family": family, "setup": [], "ops": full, "label": label, "fresh": True}))
    return viol, counts, nontriv


# ---------------------------------------------------------------------------------------------
# "after an error the library is still usable: setting a valid expression next yields exactly the results of a fresh session" - under
# NON-default preferences and for every entry point that can fail, incl. the ones that fail because no expression has been set yet

RUP_PREFS = [[["pref", "BrailleNavHighlight", "All"]], [["pref", "BrailleNavHighlight", "Off"]], [["pref", "BrailleNavHighlight", "FirstChar"], ["pref", "BrailleCode", "UEB"]],
             [["pref", "Language", "es"], ["pref", "SpeechStyle", "SimpleSpeak"]], [["pref", "TTS", "SSML"], ["pref", "Bookmark", "true"]], [["pref", "NavMode", "Character"], ["pref", "Overview", "true"]],
             [["pref", "IntentErrorRecovery", "Error"], ["pref", "Verbosity", "Terse"]]]
RUP_FAILS = [[["nodeat", 0]], [["nodeat", "MAX"]], [["brpos"]], [["navid"]], [["navmml"]], [["braille", ""]], [["braille", "x"]], [["navbraille"]], [["speech"]], [["overview"]], [["nav", "ZoomIn"]],
             [["nav", "NoSuchCommand"]], [["key", 39, False, False, False, False]], [["setnav", "x", 0]], [["mathml", "<math><mi>x</mi"]], [["mathml", "<svg/>"]], [["mathml", ""]],
             [["mathml", "<math><mfrac><mi>x</mi></mfrac></math>"]], [["pref", "Pitch", "abc"]], [["pref", "Nope", "1"]], [["pref", "Language", "klingon"]], [["rules_dir", "/nonexistent"]],
             [["mathml", VALID], ["setnav", "no-such-id", 0]], [["mathml", VALID], ["nodeat", "MAX"]], [["mathml", VALID], ["nav", "MoveLastLocation"], ["nav", "MoveLastLocation"]],
             [["mathml", VALID], ["braille", "no-such-id"]], [["mathml", VALID], ["mathml", "<math><mi>x</mi"], ["speech"], ["nodeat", 1], ["brpos"]]]


def rup_observe(prefs):
    return [["mathml", VALID], ["speech"], ["braille", ""], ["navid"], ["braille", {"r": -1, "k": 0}], ["nav", "ZoomIn"], ["navid"], ["braille", {"r": -1, "k": 0}], ["brpos"], ["overview"]] + \
           [["getpref", p[1]] for p in prefs]


def work_rup(item):
    _, pairs = item
    mc = mcx.worker_mc()
    base = [["rules_dir", mcx.RULES], ["pref", "TTS", "none"]]
    cases, meta = [], []
    for pi, fi in pairs:
        prefs, fails = RUP_PREFS[pi], RUP_FAILS[fi]
        for variant in ("with", "without"):
            pre = base + prefs + (fails if variant == "with" else [])
            ops = list(pre)
            for o in rup_observe(prefs):
                o = [({"r": len(ops) - 1, "k": x["k"]} if isinstance(x, dict) and x.get("r") == -1 else x) for x in o]
                ops.append(o)
            cases.append(ops)
            meta.append((pi, fi, variant, len(pre)))
    _, res = mc.run_cases([], cases, fresh=True, keep_going=True, per_case_timeout=15.0)
    viol, counts, nontriv = [], {"evaluations": 0, "calls": 0, "panics": 0, "errors": 0}, []
    for k in range(0, len(cases), 2):
        (pi, fi, _, n1), (_, _, _, n0) = meta[k], meta[k + 1]
        r1, r0 = res[k], res[k + 1]
        counts["evaluations"] += 1
        counts["calls"] += len(r1)
        label = "rup:" + "+".join(p[1] + "=" + p[2] for p in RUP_PREFS[pi]) + ":" + ">".join(opclass(o) for o in RUP_FAILS[fi])
        replay = {"family": "recover-under-prefs", "pair": [pi, fi], "label": label}
        bad = next((x for x in r1 if x[0] in ("p", "abort", "timeout")), None)
        if bad is not None:
            counts["panics"] += 1
            if bad[0] == "p":
                i = r1.index(bad)
                viol.append((f"C08|panic|{opclass(cases[k][i])}|{source_line(bad[1])}", f"recover-under-prefs {label}: {opclass(cases[k][i])} panicked at {bad[1]}: {short(bad[2] if len(bad) > 2 else '', 120)}", replay))
            continue
        if not any(x[0] == "e" for x in r1[len(RUP_PREFS[pi]) + 2:n1]):
            continue                              # nothing failed: nothing to recover from
        counts["errors"] += 1
        a, b_ = [norm_ids(x[:2]) for x in r1[n1:]], [norm_ids(x[:2]) for x in r0[n0:]]
        nontriv.append(hash(("rup", pi, fi, json.dumps(a, ensure_ascii=False))))
        if a != b_:
            j = next(i for i, (x, y) in enumerate(zip(a, b_)) if x != y)
            what = opclass(cases[k][n1 + j])
            viol.append((f"C08|not-recovered|recover-under-prefs|{what}|{'+'.join(p[1] for p in RUP_PREFS[pi])}",
                         f"recover-under-prefs {label}: after the failing call(s), {what} on a valid expression returns {short(a[j], 110)}, the same session without the failing call(s) {short(b_[j], 110)}", replay))
    return viol, counts, nontriv


def _dispatch(job):
    if job[0] == "__rup__":
        return work_rup(job)
    return work_fresh(job) if job[0] == "__fresh__" else work(job)
