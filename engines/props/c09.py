"""C09 — every node gets a unique id, author ids are kept, ids handed out later belong to the expression.
(a)/(b): terms of G (restructuring constructs and triggers) x author-id plantings (none, one id at each
element in turn, all elements, duplicates).  (c): for each expression every navigation command
sequence of length <= 2 (incl. cursor routing with offsets), SSML/SAPI5 bookmarks, braille routing."""
import json, re, itertools
import xml.etree.ElementTree as ET
from common import Run, norm_ids, is_ok, is_err, is_panic, val, short
import terms, mcx, vis, canon_run

TWO_D = ("mfrac", "msqrt", "mroot", "msup", "msub", "msubsup", "munder", "mover", "munderover", "mmultiscripts", "mtable", "mtr", "mtd", "menclose")
AUTHOR = "au7-x"


def all_ids(t, acc=None):
    acc = [] if acc is None else acc
    for _, n in t.walk():
        acc.append(n.attrs.get("id"))
    return acc


def plantings(t):
    """(label, term, planted) — planted: list of (id, tag, normalised visible text of that element)"""
    yield "noids", t, []
    nodes = list(t.walk())
    hidden = set()
    for path, n in nodes:
        # content MathML defines as non-rendered: no claim about ids inside it
        if n.tag in vis.INVISIBLE_TAGS or (n.tag == "semantics"):
            for p2, n2 in nodes:
                if len(p2) > len(path) and p2[:len(path)] == path and (n.tag != "semantics" or p2[len(path)] != 0):
                    hidden.add(p2)
    vt = lambda path, n: "" if path in hidden else vis.N(vis.vis(n), True)
    for path, n in nodes:
        c = t.copy()
        c.at(path).attrs["id"] = AUTHOR
        yield "one@" + "/".join(map(str, path)), c, [(AUTHOR, n.tag, vt(path, n))]
    c = t.copy()
    pl = []
    for k, (path, n) in enumerate(nodes):
        c.at(path).attrs["id"] = f"a{k}"
        pl.append((f"a{k}", n.tag, vt(path, n)))
    yield "all", c, pl
    toks = [p for p, n in nodes if n.tag in vis.TOKENS]
    if len(toks) >= 2:
        c = t.copy()
        c.at(toks[0]).attrs["id"] = "dup"
        c.at(toks[1]).attrs["id"] = "dup"
        yield "dup", c, [("dup", "-", None), ("dup", "-", None)]
    c = t.copy()
    c.at(nodes[0][0]).attrs["id"] = "M0000000-1"       # looks like a generated id
    yield "lookalike", c, [("M0000000-1", nodes[0][1].tag, None)]


def check_ids(label, plabel, t, planted, canon):
    """-> list of (key, what)"""
    out = []
    try:
        tout = terms.parse_xml(canon)
    except ET.ParseError as e:
        return [("unparsable", f"result not well-formed: {e}")]
    ids = all_ids(tout)
    head = canon_run.label_class(label)
    if head.startswith("merge:"):
        head = ":".join(head.split(":")[:3])        # sequence and parent; the surrounding context is not part of the class
    if any(i is None or i == "" for i in ids):
        tags = sorted({n.tag for _, n in tout.walk() if not n.attrs.get("id")})
        out.append((f"missing-id|{','.join(tags)}", f"element(s) without id: {tags}"))
    from collections import Counter
    cnt = Counter(i for i in ids if i)
    author_in = Counter(p[0] for p in planted)
    for i, c in cnt.items():
        if c > 1 and c > author_in.get(i, 0):
            kind = "author-id-duplicated" if i in author_in else "generated-id-duplicated"
            out.append((f"{kind}", f"id {i!r} occurs {c} times in the result (input had it {author_in.get(i, 0)} times)"))
    if plabel.startswith("one@") or plabel == "all":
        byid = {}
        for _, n in tout.walk():
            byid.setdefault(n.attrs.get("id"), []).append(n)
        for pid, tag, text in planted:
            if tag not in vis.TOKENS and tag not in TWO_D:
                continue                                   # rows and wrappers may legitimately disappear
            if not text:
                continue                                   # element without visible content may be dropped
            got = byid.get(pid, [])
            if not got:
                # which output element now carries that text?  (smallest element whose visible text contains it)
                best = None
                for _, n in tout.walk():
                    g = vis.N(vis.vis(n, output=True))
                    if text in g and (best is None or len(g) <= len(best[1])):
                        best = (n, g)
                if best is None:
                    cls_ = "text-vanished"
                elif best[1] == text:
                    cls_ = f"dropped-from:{best[0].tag}"             # the element is still there, only its id is gone
                else:
                    cls_ = f"absorbed-by:{best[0].tag}"              # merged into a bigger element that kept another piece's id
                if plabel == "all" and cls_.startswith("absorbed-by") and best[0].attrs.get("id") in author_in:
                    continue        # two author ids compete for one merged element: it cannot keep both
                out.append((f"author-id-lost|{tag}|{cls_}", f"author id on <{tag}> ({text!r}) is not in the result ({cls_})"))
            else:
                g = vis.N(vis.vis(got[0], output=True))
                if text not in g:
                    out.append((f"author-id-moved|{tag}", f"author id planted on <{tag}> carrying {text!r} now sits on <{got[0].tag}> carrying {g!r}"))
    return out


def site_class(label, plabel):
    """outermost construct of the labelled term (paths and deviation names dropped) — where the id was lost"""
    head = label.split("|")[0].split("[")[0]
    m = re.match(r"(run|alt|lone):([A-Za-z_+\-]+)", head)
    if m:
        head = m.group(1) + ":" + re.sub(r"x$", "", m.group(2))          # the token-run families: by token kind
    if head.startswith("pair:"):
        head = "pair"                                                      # sibling pairs: one class
    if head.startswith("emptybase:"):
        f = label.split("|")[0].split(":")
        head = ":".join([f[0], f[1], f[-1]])                               # empty-base family: by kind of empty script and what follows the pair
    return head + ("+dev" if "|" in label else "")


NAV1 = ["ZoomIn", "ZoomOut", "ZoomInAll", "ZoomOutAll", "MoveNext", "MovePrevious", "MoveStart", "MoveEnd", "MoveLastLocation",
        "MoveCellNext", "MoveCellDown", "ReadCurrent", "DescribeCurrent", "WhereAmI", "MoveTo3", "SetPlacemarker1", "MoveTo1",
        "ToggleZoomLockUp", "ToggleSpeakMode", "MoveLineEnd", "MoveColumnStart"]
NCELLS = 24


def history_ops(doc_):
    """one case = one expression + every query whose answer is an id"""
    ops = [["mathml", doc_], ["speech"], ["braille", ""], ["navid"]]          # 0..3
    idx = {"mathml": 0, "speech": 1, "braille": 2}
    probes = []     # (description, op index returning an id)
    probes.append(("navid after set_mathml", 3))
    for p in range(NCELLS):
        ops.append(["nodeat", p])
        i = len(ops) - 1
        probes.append((f"nodeat({p})", i))
        # cursor routing: put the navigation there (with the offset the library reported), then a command
        for cmd in ("MoveTo3", "MoveLastLocation", "ZoomIn", "MoveNext") if p % 3 == 0 else ("MoveTo3",):
            ops.append(["setnav", {"r": i, "k": 0}, {"r": i, "k": 1}])
            ops.append(["nav", cmd])
            ops.append(["navid"])
            probes.append((f"nodeat({p}) -> set_navigation_node -> {cmd}", len(ops) - 1))
            ops.append(["navmml"])
            probes.append((f"nodeat({p}) -> set_navigation_node -> {cmd} [navigation mathml]", len(ops) - 1))
    return ops, probes


def nav_ops(doc_, seqs):
    ops, probes = [], []
    for seq in seqs:
        ops.append(["mathml", doc_])
        base = len(ops) - 1
        for c in seq:
            ops.append(["nav", c])
            ops.append(["navid"])
            probes.append((base, "->".join(seq), len(ops) - 1))
        ops.append(["navmml"])
        probes.append((base, "->".join(seq) + " [navigation mathml]", len(ops) - 1))
    return ops, probes


def ids_of(canon):
    return set(re.findall(r"\sid='([^']*)'", canon)) | set(re.findall(r'\sid="([^"]*)"', canon))


def work(item):
    kind = item[0]
    mc = mcx.worker_mc()
    viol, counts, nontriv = [], {"evaluations": 0, "skipped_panics": 0}, []
    if kind in ("plant", "plant-lite"):
        _, cases = item
        setup = [["rules_dir", mcx.RULES], ["pref", "TTS", "none"]]
        flat = []
        for label, t in cases:
            for plabel, pt, planted in plantings(t):
                if kind == "plant-lite" and plabel not in ("noids", "all", "dup"):
                    continue          # the deviation corpus: ids on nothing / on everything / one duplicate (the one-at-a-time plantings stay with the spine corpus)
                flat.append((label, plabel, pt, planted))
        _, res = mc.run_cases(setup, [[["mathml", terms.doc(pt)]] for _, _, pt, _ in flat])
        for (label, plabel, pt, planted), r in zip(flat, res):
            counts["evaluations"] += 1
            r = r[0]
            if is_panic(r):
                counts["skipped_panics"] += 1
                continue
            if not is_ok(r):
                continue
            nontriv.append(hash((label, plabel)))
            for k, w in check_ids(label, plabel, pt, planted, val(r)):
                if k.startswith("author-id-lost"):
                    k = f"{k}|{site_class(label, plabel)}"          # by construct (and deviation): losing ids on OTHER expressions is a different finding
                viol.append((f"C09|{k}", f"{label} [{plabel}]: {w}", {"kind": kind, "label": label, "plabel": plabel, "doc": terms.doc(pt), "planted": planted}))
    elif kind == "carry":
        # two expressions in one session: whatever was done on the first (moves, place markers, undo until nothing is left, cursor routing),
        # every id handed out after the second set_mathml is an id of the SECOND returned MathML
        _, pairs, pres, posts = item
        setup = [["rules_dir", mcx.RULES], ["pref", "TTS", "SSML"], ["pref", "Bookmark", "true"]]
        for (la, ta), (lb, tb) in pairs:
            da, db = terms.doc(ta), terms.doc(tb)
            cases, meta = [], []
            for pre in pres:
                ops = [["mathml", da]] + [["nav", c] for c in pre] + [["mathml", db]]
                ib = len(ops) - 1
                probes = []
                for post in posts:
                    ops += [["nav", post], ["navid"], ["navmml"]]
                    probes.append((post, len(ops) - 2, len(ops) - 1))
                ops += [["speech"], ["nodeat", 0], ["nodeat", 2]]
                cases.append(ops)
                meta.append((pre, ib, probes, len(ops) - 3))
            _, res = mc.run_cases(setup, cases, fresh=True)
            for (pre, ib, probes, isp), r in zip(meta, res):
                counts["evaluations"] += 1
                if any(is_panic(x) for x in r):
                    counts["skipped_panics"] += 1
                    continue
                if not is_ok(r[0]) or not is_ok(r[ib]):
                    continue
                idsb = ids_of(val(r[ib]))
                replay = {"kind": "carry", "label": la + " / " + lb, "doc": da, "doc2": db, "pre": list(pre), "posts": list(posts)}
                seen = []
                for post, i, j in probes:
                    if is_ok(r[i]) and val(r[i])[0] not in idsb:
                        viol.append((f"C09|foreign-id|second-expression|nav|{post}", f"{la} then {lb}: after {'->'.join(pre) or 'nothing'} on the first expression, set_mathml(second) and {post}, "
                                     f"the navigation id is {val(r[i])[0]!r}, which is not an id of the second returned MathML", replay))
                    if is_ok(r[j]):
                        for got in ids_of(val(r[j])[0]):
                            if got not in idsb:
                                viol.append((f"C09|foreign-id|second-expression|navmml|{post}", f"{la} then {lb}: after {'->'.join(pre) or 'nothing'}, set_mathml(second) and {post}, the navigation MathML carries id {got!r} of another expression", replay))
                                break
                    seen.append(str(val(r[i])[0]) if is_ok(r[i]) else "E")
                if is_ok(r[isp]):
                    for m in re.findall(r"<mark name=['\"]([^'\"]*)['\"]", val(r[isp])):
                        if m not in idsb:
                            viol.append(("C09|foreign-id|second-expression|bookmark", f"{la} then {lb}: bookmark {m!r} in the speech of the second expression is not one of its ids", replay))
                            break
                for k in (isp + 1, isp + 2):
                    if is_ok(r[k]) and val(r[k])[0] not in idsb:
                        viol.append(("C09|foreign-id|second-expression|nodeat", f"{la} then {lb}: node-from-braille returned {val(r[k])[0]!r}, not an id of the second expression", replay))
                nontriv.append(hash((la, lb, pre, norm_ids(" ".join(seen)))))
    elif kind == "reset":
        # the editor flow inside ONE session: take the MathML the library returned, add elements that have no id yet, set it again
        _, cases = item
        setup = [["rules_dir", mcx.RULES], ["pref", "TTS", "none"]]
        edits = [("</math>", "<mo>+</mo><mi>q</mi></math>"), ("</mrow>", "<mo>-</mo><msup><mi>zz</mi><mn>7</mn></msup></mrow>"), ("<mi ", "<mn>5</mn><mi ")]
        ops = []
        for label, t in cases:
            ops.append([["mathml", terms.doc(t)]] + [["mathml_sub", {"r": 0}, a, b_] for a, b_ in edits] + [["mathml_sub", {"r": 1}, "</math>", "<mtext>w</mtext></math>"]])
        _, res = mc.run_cases(setup, ops)
        for (label, t), r in zip(cases, res):
            if not is_ok(r[0]):
                continue
            old_ids = [i for i in ids_of(val(r[0]))]
            for k, x in enumerate(r[1:], 1):
                counts["evaluations"] += 1
                if is_panic(x):
                    counts["skipped_panics"] += 1
                    continue
                if not is_ok(x):
                    continue
                nontriv.append(hash((label, "reset", k)))
                try:
                    tout = terms.parse_xml(val(x))
                except ET.ParseError:
                    continue
                ids = all_ids(tout)
                from collections import Counter
                dup = [i for i, c in Counter(i for i in ids if i).items() if c > 1]
                replay = {"kind": "reset", "label": label, "doc": terms.doc(t)}
                if dup:
                    viol.append(("C09|reset|duplicate-id", f"{label}: after editing the returned MathML (edit #{k}) and setting it again in the same session, id(s) {short(dup, 60)} occur more than once", replay))
                elif any(not i for i in ids):
                    viol.append(("C09|reset|missing-id", f"{label}: after edit #{k} and a second set_mathml an element has no id", replay))
    else:
        _, engine, cases, seqs = item
        setup = [["rules_dir", mcx.RULES], ["pref", "TTS", engine], ["pref", "Bookmark", "true"], ["pref", "BrailleCode", "Nemeth" if engine != "SAPI5" else "UEB"]]
        for label, t in cases:
            d = terms.doc(t)
            ops, probes = history_ops(d)
            nops, nprobes = nav_ops(d, seqs)
            _, res = mc.run_cases(setup, [ops, nops])
            r, rn = res
            if not is_ok(r[0]):
                continue
            ids = ids_of(val(r[0]))
            replay = {"kind": "hist", "engine": engine, "label": label, "doc": d, "seqs": seqs}
            def bad(what, got, key):
                viol.append((f"C09|foreign-id|{key}", f"{label}: {what} returned id {got!r}, which is not an id of the returned MathML", replay))
            if is_ok(r[1]):
                marks = re.findall(r"<mark name=['\"]([^'\"]*)['\"]", val(r[1])) + re.findall(r"<bookmark mark=['\"]([^'\"]*)['\"]", val(r[1]))
                counts["bookmarks"] = counts.get("bookmarks", 0) + len(marks)
                for m in marks:
                    if m not in ids:
                        bad(f"speech bookmark ({engine})", m, f"bookmark|{engine}")
            for what, i in probes:
                counts["evaluations"] += 1
                x = r[i]
                if is_panic(x):
                    counts["skipped_panics"] += 1
                    continue
                if is_ok(x):
                    v = val(x)
                    if "[navigation mathml]" in what:
                        for got in ids_of(v[0]):
                            if got not in ids:
                                bad(what, got, "navmml|" + re.sub(r"\d+", "N", what.split(" [")[0]))
                    elif v[0] not in ids:
                        bad(what, v[0], re.sub(r"\(\d+\)", "(N)", what))
                    nontriv.append(hash((label, what, str(v[0]))))
            for base, what, i in nprobes:
                counts["evaluations"] += 1
                if not is_ok(rn[base]):
                    continue
                idsn = ids_of(val(rn[base]))
                x = rn[i]
                if is_panic(x):
                    counts["skipped_panics"] += 1
                    continue
                if is_ok(x):
                    v = val(x)
                    if "[navigation mathml]" in what:
                        for got in ids_of(v[0]):
                            if got not in idsn:
                                bad(what, got, "navmml-after-commands")
                    elif v[0] not in idsn:
                        bad("navigation id after " + what, v[0], "nav|" + what.split("->")[-1])
                    nontriv.append(hash((label, what, norm_ids(str(v[0])))))
    return viol, counts, nontriv


def confirm(replay, verbose=False):
    mc = mcx.Mc()
    old = mcx._worker_mc
    mcx._worker_mc = mc
    try:
        t = terms.parse_xml(replay["doc"]).kids[0]
        if replay["kind"] == "carry":
            t2 = terms.parse_xml(replay["doc2"]).kids[0]
            v, _, _ = work(("carry", [((replay["label"].split(" / ")[0], t), (replay["label"].split(" / ")[-1], t2))], [tuple(replay["pre"])], tuple(replay["posts"])))
        elif replay["kind"] == "reset":
            # sessions hand out ids per call: replay the term after another one, as in the run
            v, _, _ = work(("reset", [("warm-up", terms.row(terms.mi("a"), terms.mo("+"), terms.mi("b"))), (replay["label"], t)]))
            v = [x for x in v if x[2]["label"] == replay["label"]]
        elif replay["kind"] in ("plant", "plant-lite"):
            # re-run exactly the planted document
            setup = [["rules_dir", mcx.RULES], ["pref", "TTS", "none"]]
            _, res = mc.run_cases(setup, [[["mathml", replay["doc"]]]])
            v = []
            if is_ok(res[0][0]):
                v = [(f"C09|{k}|{site_class(replay['label'], replay['plabel'])}" if k.startswith("author-id-lost") else f"C09|{k}", w, None)
                     for k, w in check_ids(replay["label"], replay["plabel"], t, [tuple(p) for p in replay["planted"]], val(res[0][0]))]
        else:
            v, _, _ = work(("hist", replay["engine"], [(replay["label"], t)], replay["seqs"]))
    finally:
        mcx._worker_mc = old
        mc.close()
    if verbose:
        for k, w, _ in v:
            print(" ", k, "—", w)
    return {k for k, _, _ in v}


def corpus(depth):
    out = []
    for sh in terms.spine_shapes(depth):
        out.append((terms.shape_name(sh), terms.build(sh, terms.Filler("mixed"))))
    for name, t in canon_run.special_terms():
        out.append(("special:" + name, t))
    return out


def main(tier):
    run = Run("C09", tier, "exploration")
    corp = corpus(2)
    small = corpus(1)
    jobs = []
    for i in range(0, len(corp), 60):
        jobs.append(("plant", corp[i:i + 60]))
    # the single-deviation neighbourhood of the spine terms (shared with C01/C02): empty bases, wrappers, insertions, sibling pairs
    have = {c[0] for c in corp}
    devs = [c for c in canon_run.gen_cases("quick" if tier == "quick" else "thorough") if c[0] not in have]
    run.count("deviation_terms", len(devs))
    for i in range(0, len(devs), 300):
        jobs.append(("plant-lite", devs[i:i + 300]))
    for i in range(0, len(small), 40):
        jobs.append(("reset", small[i:i + 40]))
    seqs1 = [(a,) for a in NAV1]
    seqs2 = [(a, b) for a in NAV1 for b in NAV1]
    hist_corp = small if tier == "quick" else corp
    for engine in ("SSML", "SAPI5"):
        step = 4
        for i in range(0, len(hist_corp), step):
            jobs.append(("hist", engine, hist_corp[i:i + step], seqs1 + (seqs2 if (tier == "thorough" and engine == "SSML") or (tier == "quick" and engine == "SSML") else [])))
    # carry-over between two expressions of one session: every sequence of <= 4 (thorough 5) commands over moves, a place marker and undo on the first
    import itertools
    alpha = ["ZoomIn", "MoveNext", "SetPlacemarker1", "MoveLastLocation", "ZoomOut"]
    pres = [()] + [p for n in range(1, (5 if tier == "quick" else 6)) for p in itertools.product(alpha, repeat=n)]
    posts = ("MoveTo1", "MoveLastLocation", "ReadCurrent", "MoveTo0", "ZoomIn", "WhereAmI")
    by = dict(small)
    pairs = [(("frac", by["frac"]), ("add", by["add"])), (("matrix", by["matrix"]), ("sup", by["sup"])), (("add", by["add"]), ("add", by["add"]))]
    run.count("carry_over_histories", len(pres) * len(pairs))
    for pr in pairs:
        for i in range(0, len(pres), 60):
            jobs.append(("carry", [pr], pres[i:i + 60], posts))
    # determinism gate
    outs = []
    for _ in range(2):
        mcx._worker_mc = mcx.Mc()
        outs.append(json.dumps(work(("plant", corp[:30])), sort_keys=True, ensure_ascii=False))
        mcx._worker_mc.close()
        mcx._worker_mc = None
    if outs[0] != outs[1]:
        print("MACHINERY-ERROR property=C09: determinism gate failed")
        return 2
    run.sample({"planting": "one@1", "doc": terms.doc(list(plantings(corp[14][1]))[2][1])})
    run.sample({"history": "nodeat(3) -> set_navigation_node(id, offset) -> MoveTo3 -> navid", "doc": terms.doc(small[20][1])})
    for viol, counts, nontriv in mcx.pmap(work, jobs):
        run.merge_violations(viol)
        run.merge_counts(counts)
        for h in nontriv:
            run.nontriv(h)
    return run.finish(
        rule="plantings: every spine term of G to depth 2 and every trigger term x {no ids, one author id at each element in turn, ids on all "
             "elements, duplicate ids, an author id that looks generated}; the editor flow (returned MathML + elements without ids, set again in the same session: ids stay distinct); histories: per expression (quick: depth-1 terms + triggers; thorough: depth 2) "
             f"all navigation sequences of length <= 2 over {len(NAV1)} commands, Bookmark=true speech under SSML and SAPI5, node-from-braille for the first "
             f"{NCELLS} cells, and cursor routing (node-from-braille -> set_navigation_node with the reported offset -> command); carry-over: every command sequence of length <= 4 (thorough 5) over moves, a place marker and undo on a first expression, then a second expression and 6 commands, bookmarks and routing - all ids belong to the second. "
             "distinct_nontrivial = distinct (expression, planting) and (expression, query, answer) combinations",
        assumptions=["an author id on an <mrow> or wrapper element may disappear with the element (statement speaks of tokens and 2-D elements)",
                     "with duplicate author ids only uniqueness of generated ids and no further duplication is demanded"],
        confirm=confirm)
