"""C10 — results depend only on the current expression and preferences.
E2 histories: (a) all call histories of length <= d from the initial state that end in an observation, each in a
fresh session; (b) long sessions whose call sequence is a de Bruijn sequence of order n over the 25-op alphabet,
so that every window of n calls occurs after a long, varied earlier history.  Every observation (getter result or
set_mathml return value) is compared with the switch-free reference: a fresh session in which the current values
of all tracked preferences are set before anything loads, then set_mathml(current expression), the navigation
commands since it, and the getter.  E3 schedules: all interleavings of 2-3 sessions in real threads at API-call
granularity under the executor's controlled scheduler; each thread's observations must equal its solo run."""
import itertools, json, os, re, subprocess
from common import Run, norm_ids, is_ok, is_err, is_panic, val, short, MachineryError, load_known
import terms, mcx
from terms import mi, mn, mo, mtext, row, el

PREFS0 = {"Language": "en", "SpeechStyle": "ClearSpeak", "BrailleCode": "Nemeth", "DecimalSeparator": "Auto", "Verbosity": "Medium", "TTS": "none"}
PREF_OPS = [("Language", "en"), ("Language", "es"), ("Language", "sv"), ("Language", "en-gb"), ("SpeechStyle", "ClearSpeak"), ("SpeechStyle", "SimpleSpeak"),
            ("BrailleCode", "Nemeth"), ("BrailleCode", "UEB"), ("BrailleCode", "Vietnam"), ("DecimalSeparator", "Auto"), ("DecimalSeparator", ","),
            ("Verbosity", "Terse"), ("Verbosity", "Verbose"), ("TTS", "none"), ("TTS", "SSML")]
CANON_PREFS = ("Language", "DecimalSeparator")


def kitchen_sink():
    parts = []
    f = terms.Filler("num", ".")
    for name, slots, _ in terms.CONSTRUCTS:
        if name in ("labeled", "column", "matrix", "sem", "style", "padded", "text"):
            continue
        parts.append(terms.build((name, None, None), f))
        parts.append(mo("+"))
    # numbers a braille code may re-spell while it works on the stored expression: Roman numerals (upper and lower case), a grouped number
    parts += [mn("XLVIII"), mo("+"), mn("xii"), mo("+"), mn("1,234.5"), mo("+")]
    return row(*parts[:-1])


EXPRS = [
    terms.doc(row(mi("a"), mo("⊕"), mi("b"), mo("≅"), mi("ℵ"), mo("+"), mi("ℋ"), mo("+"), mn("⅓"), mo("+"), row(mo("["), mi("x"), mo("+"), mn("1"), mo("]")), row(mo("{"), mi("y"), mo("}")),
                  mo("+"), mn("3"), mtext("tim"), mo("+"), mn("2"), mtext("cup"))),      # + brackets en/en-gb name differently + unit abbreviations of one language only (definitions)
    #      # characters only in unicode-full.yaml (speech: en/es/sv; braille: Nemeth/UEB/Vietnam)
    terms.doc(row(mn("XLVIII"), mo("+"), mn("12"), mo(","), mn("34"), mo("+"), mn("1"), mo("."), mn("234"), mo(","), mn("5"), mo("+"), mn("3.5"), mo("+"), mn("xii"))),   # parsed differently per locale; Roman numerals (a braille code may re-spell them while it works on the stored expression)
    terms.doc(kitchen_sink()),                                                                          # one of every construct
    terms.doc(row(el("mfrac", mn("7"), mn("3"), intent="binomial($n,"), mo("+"), el("msup", mi("x"), mn("2")))),             # ill-formed intent
]
GETTERS = [["speech"], ["braille", ""], ["overview"], ["nav", "ZoomIn"], ["nav", "MoveNext"], ["brpos"], ["nodeat", 1]]
OPS = [["pref", k, v] for k, v in PREF_OPS] + [["mathml", e] for e in EXPRS] + GETTERS
NOPS = len(OPS)
NPREF = len(PREF_OPS)
NEXPR = len(EXPRS)
IS_OBS = [op[0] != "pref" for op in OPS]


def opname(op):
    if op[0] == "pref":
        return f"{op[1]}={op[2]}"
    if op[0] == "mathml":
        return f"set_mathml(E{EXPRS.index(op[1]) + 1})"
    if op[0] == "nav":
        return f"nav({op[1]})"
    return {"speech": "speech", "braille": "braille", "overview": "overview", "brpos": "braille_position", "nodeat": "node_from_braille(1)"}[op[0]]


class Model:
    """the boring reference state M"""

    def __init__(self):
        self.prefs = dict(PREFS0)
        self.expr = None
        self.navs = []
        self.at_set = {}
        self.getters_since_set = []

    def key_for(self, op):
        """(M, op) -> the reference call list and a hashable key; must be called BEFORE apply"""
        pre = [["pref", k, self.prefs[k]] for k in PREFS0]
        if op[0] == "mathml":
            calls = pre + [op]
        else:
            calls = pre + ([["mathml", self.expr]] if self.expr is not None else []) + [["nav", c] for c in self.navs] + [op]
        return json.dumps(calls, ensure_ascii=False), calls

    def klass(self, op):
        """(stale-canon candidate?, prefs changed since set_mathml, getters since set_mathml, canon probes).
        A mismatch is attributed to the stored tree not being re-canonicalized only if the canonical MathML of the expression
        really differs between the preferences in force at set_mathml time and the current ones (decided from two reference
        sessions, the 'canon probes'); otherwise it is an ordinary history dependence."""
        changed = sorted(k for k in PREFS0 if self.expr is not None and self.at_set.get(k) != self.prefs[k])
        stale = any(k in CANON_PREFS for k in changed) and op[0] != "mathml"
        probes = None
        if stale:
            then = dict(self.prefs)
            for k in CANON_PREFS:
                then[k] = self.at_set[k]
            probes = (json.dumps([["pref", k, then[k]] for k in PREFS0] + [["mathml", self.expr]], ensure_ascii=False),
                      json.dumps([["pref", k, self.prefs[k]] for k in PREFS0] + [["mathml", self.expr]], ensure_ascii=False))
        return stale, changed, sorted(set(self.getters_since_set)), probes

    def apply(self, op):
        if op[0] == "pref":
            self.prefs[op[1]] = op[2]
        elif op[0] == "mathml":
            self.expr = op[1]
            self.navs = []
            self.at_set = dict(self.prefs)
            self.getters_since_set = []
        else:
            if op[0] == "nav":
                self.navs.append(op[1])
            self.getters_since_set.append(op[0] if op[0] != "nav" else "nav")


SETUP = [["rules_dir", mcx.RULES]] + [["pref", k, v] for k, v in PREFS0.items()]


def obs_norm(r):
    """observation for comparison: kind + value (ids normalised); errors by first line"""
    r = norm_ids(r)
    if r[0] == "o":
        return ["o", r[1]]
    if r[0] == "e":
        return ["e", re.sub(r"\s+", " ", r[1])[:160]]
    return [r[0], r[1] if len(r) > 1 else ""]


def de_bruijn(k, n):
    a = [0] * k * n
    seq = []

    def db(t, p):
        if t > n:
            if n % p == 0:
                seq.extend(a[1:p + 1])
        else:
            a[t] = a[t - p]
            db(t + 1, p)
            for j in range(a[t - p] + 1, k):
                a[t] = j
                db(t + 1, t)
    db(1, 1)
    return seq


def run_history(mc, ops_idx):
    """run one session; returns list of (position, op, model key/calls/class, observation)"""
    ops = [OPS[i] for i in ops_idx]
    _, res = mc.run_cases(SETUP, [ops], per_case_timeout=600.0)
    res = res[0]
    m = Model()
    out = []
    for pos, (op, r) in enumerate(zip(ops, res)):
        if op[0] != "pref":
            key, calls = m.key_for(op)
            out.append((pos, key, m.klass(op), obs_norm(r)))
        m.apply(op)
    return out


def work_session(item):
    """item: (tag, list of histories as op-index lists) -> observations needing a reference"""
    tag, hists = item
    mc = mcx.worker_mc()
    out = []
    for h in hists:
        out.append((h, run_history(mc, h)))
    return tag, out


def work_refs(keys):
    """fresh session per reference call list; returns {key: observation}"""
    mc = mcx.worker_mc()
    cases = [json.loads(k) for k in keys]
    _, res = mc.run_cases([["rules_dir", mcx.RULES]], cases, fresh=True)
    return {k: obs_norm(r[-1]) for k, r in zip(keys, res)}


def minimise(mc, h, pos, want_key):
    """shortest suffix of the calls up to `pos` that still shows a discrepancy at its last call (from a fresh session)"""
    for k in range(1, min(pos + 1, 10) + 1):
        suf = h[pos - k + 1:pos + 1]
        got = run_history(mc, suf)
        last = got[-1] if got else None
        if last is None or last[0] != len(suf) - 1:
            continue
        ref = work_refs_direct(mc, [last[1]])[last[1]]
        if ref != last[3]:
            return suf
    return h[:pos + 1]


def work_refs_direct(mc, keys):
    cases = [json.loads(k) for k in keys]
    _, res = mc.run_cases([["rules_dir", mcx.RULES]], cases, fresh=True)
    return {k: obs_norm(r[-1]) for k, r in zip(keys, res)}


def violation_key(op, klass, refs=None):
    stale, changed, getters, probes = klass
    if stale and probes and refs is not None:
        a, b_ = refs.get(probes[0]), refs.get(probes[1])
        if a is not None and b_ is not None and a == b_:
            stale = False             # same canonical form under both preference sets: not a stale-canonicalization effect
    if stale:
        return f"C10|stale-canon|{opname(op).split('(')[0]}|changed-since-set:{'+'.join(c for c in changed if c in CANON_PREFS)}"
    return f"C10|history|{opname(op)}|changed-since-set:{'+'.join(changed) or '-'}|getters-since-set:{'+'.join(getters) or '-'}"


def confirm(replay, verbose=False):
    mc = mcx.Mc()
    try:
        if replay["kind"] == "ir":
            old_mc = mcx._worker_mc
            mcx._worker_mc = mc
            try:
                v, _ = work_ir([replay["ops"]])
            finally:
                mcx._worker_mc = old_mc
            if verbose:
                for k, w, _ in v:
                    print(" ", k, "—", w)
            return {k for k, _, _ in v}
        if replay["kind"] == "defs":
            from props import c15
            shared, doms = c15.def_domains()
            old_mc = mcx._worker_mc
            mcx._worker_mc = mc
            try:
                v, _ = work_defs((replay["a"], replay["b"], shared, doms))
            finally:
                mcx._worker_mc = old_mc
            v = [x for x in v if x[2]["label"] == replay["label"]]
            if verbose:
                for k, w, _ in v:
                    print(" ", k, "—", w)
            return {k for k, _, _ in v}
        if replay["kind"] == "sa":
            old_mc = mcx._worker_mc
            mcx._worker_mc = mc
            try:
                v, _ = work_sa([replay["ops"]])
            finally:
                mcx._worker_mc = old_mc
            if verbose:
                for k, w, _ in v:
                    print(" ", k, "—", w)
            return {k for k, _, _ in v}
        if replay["kind"] == "la":
            old_mc = mcx._worker_mc
            mcx._worker_mc = mc
            try:
                v, _ = work_la([replay["ops"]])
            finally:
                mcx._worker_mc = old_mc
            if verbose:
                for k, w, _ in v:
                    print(" ", k, "—", w)
            return {k for k, _, _ in v}
        if replay["kind"] == "ep":
            old_mc = mcx._worker_mc
            mcx._worker_mc = mc
            try:
                v, _ = work_ep([replay["ops"]])
            finally:
                mcx._worker_mc = old_mc
            if verbose:
                for k, w, _ in v:
                    print(" ", k, "—", w)
            return {k for k, _, _ in v}
        if replay["kind"] == "sep":
            old_mc = mcx._worker_mc
            mcx._worker_mc = mc
            try:
                v, _ = work_sep([replay["ops"]])
            finally:
                mcx._worker_mc = old_mc
            if verbose:
                for k, w, _ in v:
                    print(" ", k, "—", w)
            return {k for k, _, _ in v}
        if replay["kind"] == "history":
            h = replay["ops"]
            got = run_history(mc, h)
            keys = set()
            for pos, key, klass, ob in got:
                ref = work_refs_direct(mc, [key])[key]
                if ref != ob:
                    k = violation_key(OPS[h[pos]], klass, work_refs_direct(mc, list(klass[3])) if klass[3] else {})
                    keys.add(k)
                    if verbose:
                        print(" ", k, "— call", pos, opname(OPS[h[pos]]), "returned", short(ob, 150), "reference", short(ref, 150))
            return keys
        else:
            v = check_schedule(mc, replay["scripts"], replay["schedule"], None)
            if verbose:
                for k, w, _ in v:
                    print(" ", k, "—", w)
            return {k for k, _, _ in v}
    finally:
        mc.close()


# ---------------------------------------------------------------------------------------------
# E3: controlled scheduler

def interleavings(lengths):
    """all schedules: sequences over thread indices with lengths[i] occurrences of i"""
    total = sum(lengths)
    def rec(rem, acc):
        if len(acc) == total:
            yield list(acc)
            return
        for i in range(len(rem)):
            if rem[i]:
                rem[i] -= 1
                acc.append(i)
                yield from rec(rem, acc)
                acc.pop()
                rem[i] += 1
    yield from rec(list(lengths), [])


def script(prefs, expr, getters):
    """step 1 = session initialisation (rules dir + preferences, one scheduling step), then set_mathml, then the observations"""
    return [["seq", ["rules_dir", mcx.RULES]] + [["pref", k, v] for k, v in prefs]] + [["mathml", expr]] + getters


def script_tuples(tier):
    E = EXPRS
    A = script([("Language", "en"), ("BrailleCode", "Nemeth")], E[1], [["speech"], ["braille", ""]])
    B = script([("Language", "sv"), ("BrailleCode", "UEB")], E[1], [["speech"], ["braille", ""]])
    C = script([("Language", "es"), ("DecimalSeparator", ",")], E[1], [["speech"]])
    D = script([("Language", "en")], E[0], [["nav", "ZoomIn"], ["nav", "MoveNext"], ["navid"]])
    F = script([("SpeechStyle", "SimpleSpeak"), ("TTS", "SSML")], E[2], [["speech"]])
    G = script([("BrailleCode", "Vietnam")], E[1], [["braille", ""], ["speech"]])
    H = script([("Language", "es")], E[0], [["speech"], ["overview"]])
    I = script([("IntentErrorRecovery", "Error")], E[3], [["speech"], ["braille", ""]])
    J = [["seq", ["rules_dir", mcx.RULES], ["mathml", E[0]]], ["seq", ["pref", "Language", "sv"], ["speech"]], ["seq", ["pref", "Language", "en"], ["speech"]], ["braille", ""]]
    K = [["seq", ["rules_dir", mcx.RULES], ["pref", "Language", "es"]], ["mathml", E[0]], ["speech"], ["seq", ["pref", "BrailleCode", "UEB"], ["braille", ""]], ["mathml", E[1]], ["speech"]]
    two = [(A[:4], B[:4]), (A[:4], C[:4] + [["overview"]]), (A[:4], D[:4]), (B[:4], G[:4]), (C[:3] + [["braille", ""]], H[:4]), (D[:4], D[:4]), (F[:3] + [["braille", ""]], A[:4]),
           (G[:4], A[:4]), (H[:4], B[:4]), (I[:4], A[:4]), (J, H[:4]), (J, J), (A[:4], A[:4]), (B[:4], C[:3] + [["braille", ""]])]
    three = [(J[:3], C[:3], G[:3])]
    if tier == "quick":
        two = two[:4] + two[7:12]
    if tier == "thorough":
        three += [(A[:3], B[:3], D[:3]), (C[:3], H[:3], G[:3]), (J[:3], A[:3], B[:3])]
        two += [(K, K[:5]), (K, D + [["navid"]]), (A + [["overview"]], B + [["overview"]])]
        three += [(A[:4], C[:3], D[:4]), (G[:3], G[:3], A[:3]), (I[:3], F[:3], H[:3]), (J, A[:3], B[:3])]
    return two, three


def check_schedule(mc, scripts, schedule, solo):
    if solo is None:
        solo = solo_runs(mc, scripts)
    res = mc.sched(scripts, schedule)
    v = []
    if res.get("error"):
        raise MachineryError("scheduler: " + str(res["error"]))
    for ti, (got, want) in enumerate(zip(res["threads"], solo)):
        got = [obs_norm(x) for x in got]
        for k, (a, b_) in enumerate(zip(got, want)):
            if a != b_:
                v.append((f"C10|schedule|{opname_any(scripts[ti][k])}", f"thread {ti} call #{k} {opname_any(scripts[ti][k])} returned {short(a, 120)} under schedule {schedule}, {short(b_, 120)} when run alone",
                          {"kind": "schedule", "scripts": scripts, "schedule": schedule}))
                break
    return v


def opname_any(op):
    if op[0] == "seq":
        return "[" + "; ".join(opname_any(o) for o in op[1:]) + "]"
    return op[0] if op[0] not in ("pref",) else f"{op[1]}={op[2]}"


def solo_runs(mc, scripts):
    out = []
    for s in scripts:
        r = mc.sched([s], [0] * len(s))
        out.append([obs_norm(x) for x in r["threads"][0]])
    return out


def work_sched(item):
    scripts, schedules = item
    mc = mcx.worker_mc()
    solo = solo_runs(mc, scripts)
    viol, outcomes = [], set()
    for sch in schedules:
        viol += check_schedule(mc, scripts, sch, solo)
    return viol, len(schedules), sum(len(s) for s in scripts) * len(schedules)


def census():
    """process-wide mutable state in the crate (would invalidate API-call granularity)"""
    pat = r"static\s+mut\b|\bMutex\b|\bRwLock\b|\bAtomic[A-Z]\w*|\bOnceLock\b|\bOnceCell\b|unsafe\s+impl\s+Sync|env::set_var"
    hits = []
    for fn in sorted(os.listdir(mcx.SRC)):
        if fn.endswith(".rs"):
            intest = False
            for n, line in enumerate(open(os.path.join(mcx.SRC, fn), encoding="utf-8"), 1):
                if re.match(r"\s*(#\[cfg\(test\)\]|mod tests)", line):
                    intest = True
                code = line.split("//")[0]
                if not intest and re.search(pat, code):
                    hits.append(f"{fn}:{n}: {line.strip()[:100]}")
    return hits


# ---------------------------------------------------------------------------------------------
# separator mini-family: the derived separator preferences written ONE at a time (languages and DecimalSeparator always move both)

SEP_OPS = [["pref", "BlockSeparators", "' "], ["pref", "BlockSeparators", ", "], ["pref", "DecimalSeparators", ","], ["pref", "DecimalSeparators", "."]]
SEP_EXPRS = [EXPRS[1],
             terms.doc(row(mn("2"), mo(","), mn("500"), mo("+"), mn("1"), mo("'"), mn("234"), mo("+"), mn("3"), mo("."), mn("5"), mo("+"), mn("7"), mo(" "), mn("000")))]
SEP_GETTERS = [["speech"], ["braille", ""]]


def sep_histories(tier):
    """every sequence over {4 separator writes, set_mathml(E)} up to a length, then set_mathml(E) and one getter"""
    maxlen = 3 if tier == "quick" else 5
    out = []
    for e in SEP_EXPRS:
        alpha = SEP_OPS + [["mathml", e]]
        for n in range(0, maxlen + 1):
            for seq in itertools.product(range(len(alpha)), repeat=n):
                if n and not any(i == len(alpha) - 1 for i in seq):
                    continue                 # without an earlier set_mathml nothing is cached: that is a fresh session
                for g in SEP_GETTERS:
                    out.append([alpha[i] for i in seq] + [["mathml", e], g])
    return out


def sep_reference(h):
    last = {}
    for op in h:
        if op[0] == "pref":
            last[op[1]] = op[2]
    return [["pref", k, v] for k, v in last.items()] + h[-2:]


def work_sep(hists):
    mc = mcx.worker_mc()
    _, got = mc.run_cases(SETUP, hists, fresh=True)
    _, ref = mc.run_cases(SETUP, [sep_reference(h) for h in hists], fresh=True)
    viol = []
    for h, a, b_ in zip(hists, got, ref):
        x, y = obs_norm(a[-1]), obs_norm(b_[-1])
        m1, m2 = obs_norm(a[-2]), obs_norm(b_[-2])
        if x != y or m1 != m2:
            changed = sorted({op[1] for op in h if op[0] == "pref"})
            what = "canonical MathML" if m1 != m2 else h[-1][0]
            viol.append((f"C10|history|separators|{what.split()[0]}|written:{'+'.join(changed) or '-'}",
                         f"call history [{', '.join(opname_sep(o) for o in h)}]: {what} is {short(x if m1 == m2 else m1, 140)} but a fresh session with the same separator preferences gives {short(y if m1 == m2 else m2, 140)}",
                         {"kind": "sep", "ops": h}))
    return viol, len(hists)


def opname_sep(op):
    if op[0] == "pref":
        return f"{op[1]}={op[2]!r}"
    if op[0] == "mathml":
        return f"set_mathml(S{SEP_EXPRS.index(op[1]) + 1})"
    return op[0]


# ---------------------------------------------------------------------------------------------
# speech-engine preference mini-family: with an engine selected, the number-valued preferences (rates, pitches, volume, pause factor)
# reach the output through the rule variables and through direct reads; every sequence of writes, with speech taken after each write,
# must give what a fresh session with the same preference values gives

EP_EXPR = terms.doc(row(mi("A"), mo("+"), el("mfrac", mi("x"), mn("2")), mo("="), el("msup", mi("B"), mn("2"))))
EP_OPS = [["pref", "MathRate", "50"], ["pref", "MathRate", "100"], ["pref", "CapitalLetters_Pitch", "30"], ["pref", "Pitch", "20"], ["pref", "Rate", "90"], ["pref", "Volume", "50"],
          ["pref", "PauseFactor", "300"], ["pref", "BrailleNavHighlight", "Off"], ["pref", "CapitalLetters_Beep", "true"], ["pref", "Verbosity", "Terse"]]
EP_ENGINES = ["SSML", "SAPI5"]


def ep_histories(tier):
    """[TTS=engine, set_mathml, speech] + every sequence of 1..n preference writes, speech after each"""
    maxlen = 2 if tier == "quick" else 3
    out = []
    for eng in EP_ENGINES:
        for n in range(1, maxlen + 1):
            for seq in itertools.product(range(len(EP_OPS)), repeat=n):
                if any(seq[i] == seq[i + 1] for i in range(n - 1)):
                    continue
                h = [["pref", "TTS", eng], ["mathml", EP_EXPR], ["speech"]]
                for i in seq:
                    h += [EP_OPS[i], ["speech"]]
                out.append(h)
    return out


def ep_reference(h, upto):
    """fresh-session route to the preference values in force after the first `upto` ops of h"""
    last = {}
    for op in h[:upto]:
        if op[0] == "pref":
            last[op[1]] = op[2]
    return [["pref", k, v] for k, v in last.items()] + [["mathml", EP_EXPR], ["speech"]]


def work_ep(hists):
    mc = mcx.worker_mc()
    _, got = mc.run_cases(SETUP, hists, fresh=True)
    refs, where = [], []
    for hi, h in enumerate(hists):
        for k, op in enumerate(h):
            if op == ["speech"] and k > 2:
                refs.append(ep_reference(h, k))
                where.append((hi, k))
    uniq = {}
    for r in refs:
        uniq.setdefault(json.dumps(r), r)
    keys = list(uniq)
    _, rres = mc.run_cases(SETUP, [uniq[k] for k in keys], fresh=True)
    rmap = {k: obs_norm(x[-1]) for k, x in zip(keys, rres)}
    viol = []
    for (hi, k), r in zip(where, refs):
        h = hists[hi]
        x, y = obs_norm(got[hi][k]), rmap[json.dumps(r)]
        if x != y:
            written = [op[1] for op in h[3:k] if op[0] == "pref"]
            viol.append((f"C10|history|engine-prefs|{h[0][2]}|last-written:{written[-1]}|before:{'+'.join(written[:-1]) or '-'}",
                         f"call history [{', '.join(opname_ep(o) for o in h[:k + 1])}]: speech is {short(x, 160)} but a fresh session with the same preference values gives {short(y, 160)}",
                         {"kind": "ep", "ops": h}))
            break
    return viol, len(refs)


def opname_ep(op):
    if op[0] == "pref":
        return f"{op[1]}={op[2]!r}"
    return "set_mathml(E)" if op[0] == "mathml" else op[0]


# ---------------------------------------------------------------------------------------------
# Language=Auto / LanguageAuto mini-family (the language an AT announces while the user preference is "Auto")

LA_OPS_QUICK = [["pref", "LanguageAuto", "es"], ["pref", "Language", "en"], ["pref", "Language", "Auto"]]
LA_OPS_MORE = [["pref", "LanguageAuto", "sv"], ["pref", "Language", "es"]]
LA_EXPR = EXPRS[1]


def la_reference(h):
    """canonical switch-free way into the model state reached by the preference writes of h"""
    lang, before_auto, la = "Auto", None, None         # the shipped prefs.yaml has Language: Auto
    for op in h:
        if op[0] != "pref":
            continue
        if op[1] == "Language":
            if op[2] == "Auto":
                if lang != "Auto":
                    before_auto, la = lang, None
            else:
                before_auto, la = None, None
            lang = op[2]
        elif op[1] == "LanguageAuto" and lang == "Auto":
            la = op[2]                                   # (refused while Language is not Auto)
    if lang != "Auto":
        return [["pref", "Language", lang]]
    if la is not None:
        return [["pref", "Language", "Auto"], ["pref", "LanguageAuto", la]]
    return ([["pref", "Language", before_auto]] if before_auto else []) + [["pref", "Language", "Auto"]]


def la_histories(tier):
    ops = LA_OPS_QUICK + (LA_OPS_MORE if tier == "thorough" else [])
    maxlen = 7
    out = []
    for n in range(1, maxlen + 1):
        for seq in itertools.product(range(len(ops)), repeat=n):
            out.append([ops[i] for i in seq] + [["mathml", LA_EXPR], ["speech"]])
    return out


def work_la(hists):
    mc = mcx.worker_mc()
    setup = [["rules_dir", mcx.RULES], ["pref", "TTS", "none"]]
    refs = [la_reference(h) + h[-2:] for h in hists]
    _, got = mc.run_cases(setup, hists, fresh=True)
    uniq = sorted({json.dumps(r, ensure_ascii=False) for r in refs})
    _, rr = mc.run_cases(setup, [json.loads(u) for u in uniq], fresh=True)
    rmap = {u: (obs_norm(r[-2]), obs_norm(r[-1])) for u, r in zip(uniq, rr)}
    viol = []
    for h, a, r in zip(hists, got, refs):
        x = (obs_norm(a[-2]), obs_norm(a[-1]))
        y = rmap[json.dumps(r, ensure_ascii=False)]
        if x != y:
            k = 0 if x[0] != y[0] else 1
            viol.append((f"C10|history|language-auto|{'canonical' if k == 0 else 'speech'}|state:{'+'.join(o[1] + '=' + o[2] for o in r[:-2])}",
                         f"call history [{', '.join(o[1] + '=' + o[2] for o in h[:-2])}, set_mathml, speech]: {'canonical MathML' if k == 0 else 'speech'} is {short(x[k], 130)} but "
                         f"[{', '.join(o[1] + '=' + o[2] for o in r[:-2])}] in a fresh session gives {short(y[k], 130)}", {"kind": "la", "ops": h}))
    return viol, len(hists)


# ---------------------------------------------------------------------------------------------
# intent-recovery mini-family: an expression whose intent attribute cannot be honoured, the recovery preference, and the getters -
# a getter must not leave the stored expression different for the next one

IR_EXPRS = [EXPRS[3],
            terms.doc(row(mo("("), el("mtable", el("mtr", el("mtd", mi("n", arg="n"))), el("mtr", el("mtd", mi("k"))), intent="binomial($n,$k)"), mo(")"))),
            terms.doc(el("msup", mi("x", arg="b"), mn("2"), intent="power($b,$zz)"))]
IR_OPS = [["pref", "IntentErrorRecovery", "Error"], ["pref", "IntentErrorRecovery", "IgnoreIntent"], ["speech"], ["braille", ""], ["overview"], ["nav", "ZoomIn"]]


def ir_histories(tier):
    maxlen = 3 if tier == "quick" else 4
    out = []
    for e in IR_EXPRS:
        for n in range(0, maxlen + 1):
            for seq in itertools.product(range(len(IR_OPS)), repeat=n):
                for g in ([2, 3] if tier == "quick" else [2, 3, 4]):
                    out.append([["mathml", e]] + [IR_OPS[i] for i in seq] + [IR_OPS[g]])
    return out


def ir_reference(h):
    pref = "IgnoreIntent"
    for op in h:
        if op[0] == "pref":
            pref = op[2]
    navs = [op for op in h[1:-1] if op[0] == "nav"]
    return [["pref", "IntentErrorRecovery", pref], h[0]] + navs + [h[-1]]


def work_ir(hists):
    mc = mcx.worker_mc()
    refs = [ir_reference(h) for h in hists]
    _, got = mc.run_cases(SETUP, hists, fresh=True)
    uniq = sorted({json.dumps(r, ensure_ascii=False) for r in refs})
    _, rr = mc.run_cases(SETUP, [json.loads(u) for u in uniq], fresh=True)
    rmap = {u: obs_norm(r[-1]) for u, r in zip(uniq, rr)}
    viol = []
    for h, a, r in zip(hists, got, refs):
        x, y = obs_norm(a[-1]), rmap[json.dumps(r, ensure_ascii=False)]
        if x != y:
            nm = lambda o: f"{o[1]}={o[2]}" if o[0] == "pref" else ("set_mathml(I%d)" % (IR_EXPRS.index(o[1]) + 1) if o[0] == "mathml" else (o[0] if o[0] != "nav" else "nav(" + o[1] + ")"))
            before = sorted({o[0] for o in h[1:-1] if o[0] not in ("pref",)})
            viol.append((f"C10|history|intent-recovery|{h[-1][0]}|after:{'+'.join(before) or '-'}",
                         f"call history [{', '.join(nm(o) for o in h)}]: the last call returned {short(x, 130)} but [{', '.join(nm(o) for o in r)}] in a fresh session returns {short(y, 130)}",
                         {"kind": "ir", "ops": h}))
    return viol, len(hists)


def work_defs(item):
    """A -> B in one session over the corpus derived from the definitions files (the family is C15's; here its oracle is C10's own statement)"""
    from props import c15
    viol, counts, *_ = c15.work_defpair(item)
    out = []
    for k, w, rp in viol:
        parts = k.split("|")               # C15|walk-differs|<getter>|<B>|after:<kind>
        out.append((f"C10|history|definitions|{parts[2]}|{parts[3]}|{parts[4]}", w, dict(rp, kind="defs")))
    return out, counts["defpair_comparisons"]

# ---------------------------------------------------------------------------------------------
# style-availability mini-family: languages that lack a style (zh-tw ships no ClearSpeak) and style names nobody ships make the library
# fall back to another rule file; what was fallen back to must not outlive the preference values that caused it

SA_OPS = [["pref", "Language", "en"], ["pref", "Language", "zh-tw"], ["pref", "Language", "es"], ["pref", "SpeechStyle", "ClearSpeak"],
          ["pref", "SpeechStyle", "SimpleSpeak"], ["pref", "SpeechStyle", "MathSpeak"]]
SA_OPS_MORE = [["pref", "Language", "sv"], ["pref", "Language", "en-gb"]]
SA_EXPR = "<math><mfrac><mrow><mi>a</mi><mo>+</mo><mi>b</mi></mrow><mi>c</mi></mfrac><mo>+</mo><msup><mi>x</mi><mn>2</mn></msup><mo>+</mo><mroot><mi>y</mi><mn>3</mn></mroot></math>"


def sa_reference(h):
    lang = style = None
    for op in h:
        if op[0] == "pref" and op[1] == "Language":
            lang = op[2]
        elif op[0] == "pref" and op[1] == "SpeechStyle":
            style = op[2]
    return ([["pref", "SpeechStyle", style]] if style else []) + ([["pref", "Language", lang]] if lang else [])


def sa_histories(tier):
    ops = SA_OPS + (SA_OPS_MORE if tier == "thorough" else [])
    out = []
    for n in range(1, 5):
        for seq in itertools.product(range(len(ops)), repeat=n):
            if any(seq[i] == seq[i + 1] for i in range(len(seq) - 1)):
                continue
            out.append([ops[i] for i in seq] + [["mathml", SA_EXPR], ["speech"], ["overview"]])
    return out


def work_sa(hists):
    mc = mcx.worker_mc()
    setup = [["rules_dir", mcx.RULES], ["pref", "TTS", "none"]]
    refs = [sa_reference(h) + h[-3:] for h in hists]
    _, got = mc.run_cases(setup, hists, fresh=True)
    uniq = sorted({json.dumps(r, ensure_ascii=False) for r in refs})
    _, rr = mc.run_cases(setup, [json.loads(u) for u in uniq], fresh=True)
    rmap = {u: tuple(obs_norm(x) for x in r[-3:]) for u, r in zip(uniq, rr)}
    viol = []
    for h, a, r in zip(hists, got, refs):
        x = tuple(obs_norm(z) for z in a[-3:])
        y = rmap[json.dumps(r, ensure_ascii=False)]
        if x != y:
            k = 0 if x[0] != y[0] else 1 if x[1] != y[1] else 2
            what = ("canonical", "speech", "overview")[k]
            viol.append((f"C10|history|style-availability|{what}|state:{'+'.join(o[1] + '=' + o[2] for o in r[:-3])}",
                         f"call history [{', '.join(o[1] + '=' + o[2] for o in h[:-3])}, set_mathml, speech, overview]: {what} is {short(x[k], 130)} but "
                         f"[{', '.join(o[1] + '=' + o[2] for o in r[:-3])}] in a fresh session gives {short(y[k], 130)}", {"kind": "sa", "ops": h}))
    return viol, len(hists)



def _dispatch(job):
    if job[0] == "I":
        return ("I",) + work_ir(job[1])
    if job[0] == "F":
        return ("F",) + work_defs(job[1:])
    if job[0] == "L":
        return ("L",) + work_la(job[1])
    if job[0] == "A":
        return ("A",) + work_sa(job[1])
    if job[0] == "P":
        return ("P",) + work_sep(job[1])
    if job[0] == "E":
        return ("E",) + work_ep(job[1])
    if job[0] == "S":
        return ("S",) + work_session(job[1:])
    if job[0] == "R":
        return ("R", work_refs(job[1]))
    return ("T",) + work_sched(job[1:])


def adequacy_gate(mc):
    """every preference value pair must be distinguished by some expression on the observable it is meant to affect"""
    want = {"Language": [["speech"], None], "SpeechStyle": [["speech"]], "BrailleCode": [["braille", ""]], "DecimalSeparator": [None],
            "Verbosity": [["speech"]], "TTS": [["speech"]]}
    byname = {}
    for k, v in PREF_OPS:
        byname.setdefault(k, []).append(v)
    cases, meta = [], []
    for name, vals in byname.items():
        for v in vals:
            for ei, e in enumerate(EXPRS):
                for g in want[name]:
                    prefs = dict(PREFS0)
                    prefs[name] = v
                    if name == "DecimalSeparator":
                        prefs["Language"] = "en"
                    calls = [["pref", k, x] for k, x in prefs.items()] + [["mathml", e]] + ([g] if g else [])
                    cases.append(calls)
                    meta.append((name, v, ei, json.dumps(g)))
    _, res = mc.run_cases([["rules_dir", mcx.RULES]], cases, fresh=True)
    seen = {}
    for (name, v, ei, g), r in zip(meta, res):
        seen.setdefault((name, g), {}).setdefault(v, {})[ei] = json.dumps(obs_norm(r[-1]), ensure_ascii=False)
    bad = []
    for (name, g), byval in seen.items():
        if g == "null":
            # canonical form: the language matters only through its locale class (es and sv share one); demand two classes
            if len({json.dumps(byval[v], sort_keys=True) for v in byval}) < 2:
                bad.append(f"{name}: no two values give different canonical MathML")
            continue
        for a, b_ in itertools.combinations(byval, 2):
            if all(byval[a][ei] == byval[b_][ei] for ei in byval[a]):
                bad.append(f"{name}: values {a!r} and {b_!r} give identical {g} for every expression of the alphabet")
    return bad


def main(tier):
    run = Run("C10", tier, "model_checking")
    mc = mcx.Mc()
    bad = adequacy_gate(mc)
    if bad:
        print("MACHINERY-ERROR property=C10: adequacy gate failed (the alphabet cannot discriminate):", bad[:3])
        return 2
    # determinism gate: the same history twice in two sessions
    probe = [0, 14, 19, 1, 19, 15, 20, 9, 19]
    if run_history(mc, probe) != run_history(mcx.Mc(), probe):
        print("MACHINERY-ERROR property=C10: determinism gate failed")
        return 2
    mc.close()
    depth = 3 if tier == "quick" else 4
    order = 3 if tier == "quick" else 4
    obs_idx = [i for i in range(NOPS) if IS_OBS[i]]
    # (a) all histories of length <= depth from the initial state that end in an observation
    hists = []
    for d in range(1, depth + 1):
        for pre in itertools.product(range(NOPS), repeat=d - 1):
            for g in obs_idx:
                hists.append(list(pre) + [g])
    # a getter before the first set_mathml only returns "no expression" (that family is C08's): keep histories in which every
    # getter comes after a set_mathml
    def getter_first(h):
        for i in h:
            if OPS[i][0] == "mathml":
                return False
            if OPS[i][0] != "pref":
                return True
        return False
    hists = [h for h in hists if not getter_first(h)]
    if tier == "quick":
        # of the generic depth-3 histories keep those that start with set_mathml (the others are prefixes of the depth-4 shapes below
        # or windows of the de Bruijn sessions)
        hists = [h for h in hists if len(h) < 3 or OPS[h[0]][0] == "mathml"]
        # "load under A, switch, use under B":  set_mathml, getter, preference, getter
        for e in range(NPREF, NPREF + NEXPR):
            for g1 in obs_idx:
                if OPS[g1][0] == "mathml":
                    continue
                for p2 in range(NPREF):
                    for g2 in obs_idx:
                        if OPS[g2][0] != "mathml":
                            hists.append([e, g1, p2, g2])
        # plus two depth-4 shapes: preference, set_mathml, preference, observation (the textbook stale-cache history) and
        # preference, set_mathml, observation, observation (a getter that disturbs the next one)
        for p1 in range(NPREF):
            if PREFS0[OPS[p1][1]] == OPS[p1][2]:
                continue                    # writing the default value first changes nothing
            for e in range(NPREF, NPREF + NEXPR):
                for x in range(NOPS):
                    if OPS[x][0] == "mathml":
                        continue
                    for g in obs_idx:
                        if OPS[g][0] != "mathml" and OPS[g] not in (["nav", "MoveNext"], ["nodeat", 1]):     # (these two stay in the middle position x)
                            hists.append([p1, e, x, g])
    # (b) de Bruijn sessions, cut into overlapping segments
    seq = de_bruijn(NOPS, order)
    seq = seq + seq[:order - 1]
    nseg = 32
    seglen = (len(seq) + nseg - 1) // nseg
    segs = [seq[max(0, i * seglen - (order - 1)):(i + 1) * seglen] for i in range(nseg)]
    run.count("histories_from_initial_state", len(hists))
    run.count("de_bruijn_order", order)
    run.count("de_bruijn_calls", len(seq))
    jobs = [("S", "long", [s]) for s in segs] + [("S", "fresh", hists[i:i + 120]) for i in range(0, len(hists), 120)]
    sessions = []
    need = {}
    for out in mcx.pmap(_dispatch, jobs):
        _, tag, hs = out
        for h, obs in hs:
            sessions.append((tag, h, obs))
            for pos, key, klass, ob in obs:
                need.setdefault(key, None)
                if klass[3]:
                    need.setdefault(klass[3][0], None)
                    need.setdefault(klass[3][1], None)
    run.counters["phase_s_histories"] = round(run.elapsed(), 1)
    keys = list(need)
    run.count("reference_sessions", len(keys))
    for out in mcx.pmap(_dispatch, [("R", keys[i:i + 60]) for i in range(0, len(keys), 60)]):
        need.update(out[1])
    run.counters["phase_s_references"] = round(run.elapsed(), 1)
    states, transitions = set(), 0
    mismatches = []
    for tag, h, obs in sessions:
        transitions += len(h)
        for pos, key, klass, ob in obs:
            run.count("evaluations")
            states.add(key)
            run.nontriv(hash((key, json.dumps(ob, ensure_ascii=False))))
            if need[key] != ob:
                mismatches.append((tag, h, pos, key, klass, ob))
    # minimise and record: mismatches are grouped by a coarse pre-key (observation, preferences changed since set_mathml, the
    # two calls before it); up to 3 witnesses per group are minimised and the final key is computed from the minimal witness
    mc = mcx.Mc()
    groups = {}
    for tag, h, pos, key, klass, ob in mismatches:
        pk = (opname(OPS[h[pos]]), tuple(klass[1]), tuple(h[max(0, pos - 2):pos]))
        groups.setdefault(pk, []).append((tag, h, pos, key, ob, klass))
    run.count("mismatching_observations", len(mismatches))
    budget = 40 if tier == "quick" else 300
    known_keys = set(load_known("C10"))
    unstable = []
    for pk, lst in sorted(groups.items(), key=lambda x: len(x[1][0][1])):
        lst.sort(key=lambda x: x[2])
        # the key of the un-minimised witness (model class + canonical probes, all already computed)
        tag0, h0, pos0, key0, ob0, klass0 = lst[0]
        vk0 = violation_key(OPS[h0[pos0]], klass0, need)
        finals = []
        for tag, h, pos, key, ob, _kl in lst[:3]:
            if budget <= 0 or (vk0 in known_keys and finals):
                break
            budget -= 1
            suf = minimise(mc, h, pos, key)
            got = run_history(mc, suf)
            last = got[-1]
            ref = work_refs_direct(mc, [last[1]])[last[1]]
            if ref == last[3]:
                continue            # did not reproduce from scratch even with the full prefix
            pr = {}
            if last[2][3]:
                pr = work_refs_direct(mc, list(last[2][3]))
            vk = violation_key(OPS[suf[-1]], last[2], pr)
            what = (f"call history [{', '.join(opname(OPS[i]) for i in suf)}]: the last call returned {short(last[3], 140)} but a fresh session with the same "
                    f"preferences and expression returns {short(ref, 140)}")
            finals.append((vk, what, suf))
        if not finals and budget <= 0:
            # minimisation budget used up: NEVER drop a mismatch - report the un-minimised witness (finish() re-confirms it from scratch)
            hh = h0[:pos0 + 1]
            what = (f"call history [{', '.join(opname(OPS[i]) for i in hh[-12:])}] (last 12 of {len(hh)} calls): the last call returned {short(ob0, 140)} but a fresh "
                    f"session with the same preferences and expression returns {short(need[key0], 140)}")
            finals.append((vk0, what, hh))
            run.count("unminimised_mismatch_groups")
        if not finals:
            unstable.append(f"{pk} ({len(lst)} observations)")
            run.count("unreproduced_mismatch_groups")
            continue
        for vk, what, suf in finals:
            run.violation(vk, what, {"kind": "history", "ops": suf})
        fkeys = {f[0]: f for f in finals}
        for tag, h, pos, key, ob, kl in lst[len(finals):]:
            vk = violation_key(OPS[h[pos]], kl, need)
            if vk in fkeys:
                run.violation(vk, fkeys[vk][1], {"kind": "history", "ops": fkeys[vk][2]})
            else:
                # same coarse group but a different class: keep it apart, with its own (un-minimised) witness
                hh = h[:pos + 1]
                run.violation(vk, f"call history [{', '.join(opname(OPS[i]) for i in hh[-12:])}] (last 12 of {len(hh)} calls): the last call returned {short(ob, 140)} but a "
                                  f"fresh session with the same preferences and expression returns {short(need[key], 140)}", {"kind": "history", "ops": hh})
    mc.close()
    if unstable:
        # an observation that differed from its reference inside a session but not when the same calls are replayed from scratch:
        # the harness does not own some source of nondeterminism - a machinery error, never a verdict
        print("MACHINERY-ERROR property=C10: mismatches that do not replay: " + "; ".join(unstable[:5]))
        return 2
    run.counters["phase_s_minimise"] = round(run.elapsed(), 1)
    # separator mini-family
    sh = sep_histories(tier)
    run.count("separator_histories", len(sh))
    for out in mcx.pmap(_dispatch, [("P", sh[i:i + 40]) for i in range(0, len(sh), 40)]):
        _, viol, n = out
        run.merge_violations(viol)
        run.count("evaluations", n)
        transitions += n * 4
    eh = ep_histories(tier)
    run.count("engine_preference_histories", len(eh))
    for out in mcx.pmap(_dispatch, [("E", eh[i:i + 12]) for i in range(0, len(eh), 12)]):
        _, viol, n = out
        run.merge_violations(viol)
        run.count("evaluations", n)
        transitions += n * 2
    lh = la_histories(tier)
    run.count("language_auto_histories", len(lh))
    for out in mcx.pmap(_dispatch, [("L", lh[i:i + 60]) for i in range(0, len(lh), 60)]):
        _, viol, n = out
        run.merge_violations(viol)
        run.count("evaluations", n)
        transitions += n * 5
    ah = sa_histories(tier)
    run.count("style_availability_histories", len(ah))
    for out in mcx.pmap(_dispatch, [("A", ah[i:i + 40]) for i in range(0, len(ah), 40)]):
        _, viol, n = out
        run.merge_violations(viol)
        run.count("evaluations", n)
        transitions += n * 5
    ih = ir_histories(tier)
    run.count("intent_recovery_histories", len(ih))
    for out in mcx.pmap(_dispatch, [("I", ih[i:i + 60]) for i in range(0, len(ih), 60)]):
        _, viol, n = out
        run.merge_violations(viol)
        run.count("evaluations", n)
        transitions += n * 4
    from props import c15
    shared, doms = c15.def_domains()
    if tier == "quick":
        pairs = [(a, b_) for a, b_ in (("L:vi", "L:en"), ("L:en", "L:vi"), ("L:vi", "L:sv"), ("L:fi", "L:es"), ("L:en", "L:id"), ("B:ASCIIMath", "B:Nemeth"), ("B:Nemeth", "B:ASCIIMath"),
                                       ("B:UEB", "B:CMU")) if a in doms and b_ in doms]
    else:
        pairs = [(a, b_) for a in doms for b_ in doms if a != b_]
    run.count("definition_pairs", len(pairs))
    for out in mcx.pmap(_dispatch, [("F", a, b_, shared, doms) for a, b_ in pairs]):
        _, viol, n = out
        run.merge_violations(viol)
        run.count("evaluations", n)
        transitions += n * 3
    run.counters["phase_s_separators"] = round(run.elapsed(), 1)
    # E3
    two, three = script_tuples(tier)
    sjobs = []
    for scripts in two:
        sch = list(interleavings([len(s) for s in scripts]))
        for i in range(0, len(sch), 40):
            sjobs.append(("T", list(scripts), sch[i:i + 40]))
    for scripts in three:
        sch = list(interleavings([len(s) for s in scripts]))
        for i in range(0, len(sch), 60):
            sjobs.append(("T", list(scripts), sch[i:i + 60]))
    nsched = 0
    for out in mcx.pmap(_dispatch, sjobs):
        _, viol, n, calls = out
        run.merge_violations(viol)
        nsched += n
        transitions += calls
    run.counters["phase_s_schedules"] = round(run.elapsed(), 1)
    hits = census()
    if hits:
        run.exhaustive = False
        run.notes.append("process-wide mutable state found in the crate: schedules inside one call are not explored: " + "; ".join(hits[:5]))
    run.sample({"history": [opname(OPS[i]) for i in hists[len(hists) // 2]]})
    run.sample({"de_bruijn_segment_start": [opname(OPS[i]) for i in segs[3][:12]]})
    run.sample({"schedule": {"threads": [[opname_any(o) for o in s] for s in two[0]], "order": list(interleavings([len(s) for s in two[0]]))[17]}})
    return run.finish(
        rule=f"alphabet of {NOPS} calls ({NPREF} preference writes colliding on every cache, {NEXPR} expressions, 7 observations); (a) every history of length <= {depth} "
             "from the initial state that ends in an observation" + (", plus every 'preference, set_mathml, preference, observation' history" if tier == "quick" else "") +
             f", each in a fresh session; (b) a de Bruijn sequence of order {order} over the alphabet ({len(seq)} calls) run as {nseg} long sessions, so every window of "
             f"{order} calls occurs after a long earlier history; every observation compared with a switch-free fresh-session reference; "
             f"(b') the derived separator preferences written one at a time: every sequence over 4 separator writes and set_mathml up to length {3 if tier == 'quick' else 5}, then set_mathml and a getter, "
             f"against a fresh session with the final separator values; (b'') every sequence up to length 7 over (LanguageAuto=es, Language=en, Language=Auto) "
             + ("+ LanguageAuto=sv, Language=es " if tier == "thorough" else "") + "followed by set_mathml and speech, against the canonical switch-free way into the same model state; (b3) A -> B sessions over the corpus derived from the definitions files for "
             + ("8 chosen" if tier == "quick" else "all") + " ordered pairs of languages / braille codes (the family is shared with C15); (b4) three expressions whose intent cannot be honoured: every sequence up to length " + ("3" if tier == "quick" else "4") + " over (IntentErrorRecovery=Error, =IgnoreIntent, speech, braille, overview, ZoomIn) followed by a getter, against [final preference, set_mathml, getter] in a fresh session; (c) {len(two)} two-thread and {len(three)} three-thread script tuples, ALL interleavings at API-call granularity under the controlled scheduler. "
             f"(b5) with SSML / SAPI5 selected: every sequence of up to {2 if tier == 'quick' else 3} writes over 10 engine-related preference values (MathRate, pitches, rate, volume, pause factor, two unrelated ones), speech after every write, against a fresh session with the same values; "
             "states = distinct reference-model states (preferences, expression, navigation commands since set, observation) reached; transitions = API calls executed; "
             "distinct_nontrivial = distinct (model state, result) pairs",
        coverage_extra={"states": len(states), "transitions": transitions, "traces_validated_against_impl": len(sessions) + nsched,
                        "schedules_explored": nsched, "shared_mutable_state_census": hits},
        assumptions=["the reference never writes a preference after anything has loaded, so a reload defect cannot appear on both sides",
                     "schedules are explored at API-call granularity: justified by the census (no process-wide mutable state in the crate); "
                     "MathCATRulesDir and the rules directory itself are the only process-wide inputs and are not written by the checked calls"],
        confirm=confirm)
