import canon_run


def main(tier):
    return canon_run.main("C02", tier)


confirm = canon_run.confirm_for("C02")
