"""C04 — speech voices every operand of the expression.
Space: level-0 terms of G with a distinct decimal literal planted at every operand position (locale
decimal mark) x every shipped language x style x verbosity.  Oracle: each literal's digit string occurs
in the speech at least as often as in the expression."""
import json, re
from common import Run, norm_ids, is_ok, is_err, is_panic, val, short
import terms, mcx, lattice

CORE12 = ["add", "times", "paren", "frac", "sqrt", "root", "sup", "sub", "sum", "func", "neg", "abs"]


def corpus(tier):
    """list of (label, shape) ; terms are built per locale mark by the worker"""
    shapes = [(terms.shape_name(sh), sh) for sh in terms.spine_shapes(2, terms.ALL_NAMES)]
    deep = [(terms.shape_name(sh), sh) for sh in terms.spine_shapes(3, CORE12) if sh[2] is not None and sh[2][2] is not None]
    deep4 = []
    if tier == "thorough":
        deep4 = [(terms.shape_name(sh), sh) for sh in terms.spine_shapes(4, terms.CORE6) if _depth(sh) == 4]
    return shapes, deep, deep4


def _depth(sh):
    d = 0
    while sh is not None:
        d += 1
        sh = sh[2]
    return d


def literal_counts(planted):
    c = {}
    for p in planted:
        c[p] = c.get(p, 0) + 1
    return c


def occurrences(speech, lit, mark):
    """number of maximal digit-and-mark runs in speech equal to lit"""
    runs = re.findall(r"[0-9]+(?:[" + re.escape(mark) + r"][0-9]+)*", speech)
    return sum(1 for r in runs if r == lit)


def site_of(shape, k):
    """construct and slot that holds the k-th planted literal (left-to-right) — the shape class of a miss"""
    acc = []
    _sites(shape, acc, None)
    return acc[k] if k < len(acc) else "?"


def _sites(shape, acc, where):
    if shape is None:
        acc.append(where or "atom")
        return
    name, pos, sub = shape
    slots = terms.CONSTRUCT[name][1]
    for i, kind in enumerate(slots):
        if pos is not None and i == pos:
            _sites(sub, acc, f"{name}.{i}")
        elif kind == "any":
            acc.append(f"{name}.{i}")


_ALONE = {}


def parent_of(shape, k):
    """construct.slot chain above the k-th literal's own construct: 'top' or e.g. 'sup.1' or 'sup.1>add.1'"""
    chain = []
    sh = shape
    # find which spine level holds literal k
    acc = []
    _levels(shape, acc, [])
    lv = acc[k] if k < len(acc) else []
    return ">".join(lv) if lv else "top"


def _levels(shape, acc, above):
    if shape is None:
        acc.append(list(above))
        return
    name, pos, sub = shape
    slots = terms.CONSTRUCT[name][1]
    for i, kind in enumerate(slots):
        if pos is not None and i == pos:
            _levels(sub, acc, above + [f"{name}.{i}"])
        elif kind == "any":
            acc.append(list(above))


def outer_chain(shape):
    out = []
    while shape is not None:
        out.append(shape[0])
        shape = shape[2]
    return ">".join(out)


# decimal literals that are numerically a small integer or a simple fraction: rules that look at the *value* of an operand (squared,
# cubed, halves, ordinals, 'to the zero', inverse) still have to say the literal the author wrote
SPECIAL_LITERALS = ["2.0", "3.0", "1.0", "0.0", "4.0", "10.0", "2.00", "0.5"]


def n_slots(sh):
    f = terms.Filler("num")
    terms.build(sh, f)
    return len(f.planted)


def special_cases(shapes):
    """(label, shape, k, literal): every special literal in every numeric slot of every shape"""
    return [(f"{label}#{k}={lit}", sh, k, lit) for label, sh in shapes for k in range(n_slots(sh)) for lit in SPECIAL_LITERALS]


# regional language tags (both spellings of the region): the rule files are the language's, the decimal mark is the REGION's (CLDR: Mexico,
# Guatemala, the Dominican Republic and Great Britain write the period; Spain, Argentina and Finland the comma).  Keys carry the base
# language: the rules are the same files, so a slot the base language never speaks is the same finding here.
REGIONAL = {"es-MX": ".", "es-mx": ".", "es-GT": ".", "es-DO": ".", "es-ES": ",", "es-ar": ",", "en-GB": ".", "en-gb": ".", "sv-FI": ",", "fi-FI": ",", "zh-TW": ".", "vi-VN": ",", "id-ID": ","}


def work(item):
    lang, style, verb, cases = item
    mc = mcx.worker_mc()
    mark = REGIONAL.get(lang) or lattice.mark(lang)
    tag = lang
    if lang in REGIONAL:
        # for keys, messages and the per-configuration cache (the preference is set to the full tag): the base language, or - where the
        # region has rule files of its own - the directory's (lower-case) name
        lang = lang.lower() if lang.lower() in ("en-gb", "zh-tw") else lang.split("-")[0]
    setup = [["rules_dir", mcx.RULES], ["pref", "TTS", "none"], ["pref", "Language", tag], ["pref", "SpeechStyle", style], ["pref", "Verbosity", verb]]
    built = []
    special = {}
    for case in cases:
        label, sh = case[0], case[1]
        if len(case) == 4:
            f = terms.SpecialFiller(case[2], case[3], mark)
            special[label] = (case[2], case[3])
        else:
            f = terms.Filler("num", mark)
        t = terms.build(sh, f)
        built.append((label, sh, t, list(f.planted)))
    _, res = mc.run_cases(setup, [[["mathml", terms.doc(t)], ["speech"]] for _, _, t, _ in built])
    # special literals: which slots of these shapes are not spoken with ORDINARY literals either (in this context)?  A miss there belongs to
    # the slot and its context, not to the literal, and gets the ordinary key.
    dead_ordinary = set()
    if special:
        shapes_ = {}
        for label, sh, _, _ in built:
            if label in special:
                shapes_.setdefault(label.split("#")[0], sh)
        ob = []
        for base_label, sh in shapes_.items():
            f = terms.Filler("num", mark)
            ob.append((base_label, terms.build(sh, f), list(f.planted)))
        _, ores = mc.run_cases(setup, [[["mathml", terms.doc(t)], ["speech"]] for _, t, _ in ob])
        for (base_label, _, planted_), r_ in zip(ob, ores):
            if is_ok(r_[0]) and is_ok(r_[1]):
                need_ = literal_counts(planted_)
                for k_, lit_ in enumerate(planted_):
                    if occurrences(val(r_[1]), lit_, mark) < need_[lit_]:
                        dead_ordinary.add((base_label, k_))
            else:
                dead_ordinary |= {(base_label, k_) for k_ in range(len(planted_))}
    # which operand slots are already missing when the construct stands alone (context-free defects of one rule)?
    ck = (tag, style, verb)
    if ck not in _ALONE:
        alone = set()
        d1 = []
        for name, slots, _ in terms.CONSTRUCTS + terms.EXTRA_CONSTRUCTS:
            f = terms.Filler("num", mark)
            d1.append((name, terms.build((name, None, None), f), list(f.planted)))
        _, r1 = mc.run_cases(setup, [[["mathml", terms.doc(t)], ["speech"]] for _, t, _ in d1])
        for (name, t, planted), r in zip(d1, r1):
            if is_ok(r[0]) and is_ok(r[1]):
                need = literal_counts(planted)
                for k, lit in enumerate(planted):
                    if occurrences(val(r[1]), lit, mark) < need[lit]:
                        alone.add(site_of((name, None, None), k))
        _ALONE[ck] = alone
    alone = _ALONE[ck]
    viol, counts, nontriv = [], {"evaluations": 0, "skipped_panics": 0, "rejected": 0, "literals_checked": 0}, []
    for (label, sh, t, planted), r in zip(built, res):
        counts["evaluations"] += 1
        if is_panic(r[0]) or is_panic(r[1]):
            counts["skipped_panics"] += 1
            continue
        if not is_ok(r[0]):
            counts["rejected"] += 1
            continue
        replay = {"lang": tag, "style": style, "verbosity": verb, "label": label, "shape": sh}
        if label in special:
            replay["special"] = list(special[label])
        if not is_ok(r[1]):
            counts["speech_errors_left_to_C05_C15"] = counts.get("speech_errors_left_to_C05_C15", 0) + 1
            continue
        sp = val(r[1])
        nontriv.append(hash((lang, style, verb, sp)))
        need = literal_counts(planted)
        for k, lit in enumerate(planted):
            counts["literals_checked"] += 1
            got = occurrences(sp, lit, mark)
            if (got < need[lit] and label in special and special[label][0] == k and site_of(sh, k) not in alone
                    and not [a for a in parent_of(sh, k).split(">") if a in alone] and (label.split("#")[0], k) not in dead_ordinary):
                # the special literal itself: the value-dependent wording of this slot; keyed by slot and literal
                viol.append((f"C04|{lang}|{style}|missing@{site_of(sh, k)}|literal:{special[label][1]}",
                             f"[{lang}/{style}/{verb}] {label}: literal {lit} (operand {site_of(sh, k)}) is not spoken: {sp!r}", replay))
            elif got < need[lit]:
                site = site_of(sh, k)
                chain = parent_of(sh, k)
                # a literal nested inside an operand slot that is never spoken even when its construct stands alone
                # belongs to that slot's (context-free) defect
                dead_anc = [a for a in chain.split(">") if a in alone]
                if site in alone:
                    ctx = "context-free"
                elif dead_anc:
                    site, ctx = dead_anc[0], "context-free"
                else:
                    ctx = "under:" + chain
                viol.append((f"C04|{lang}|{style}|missing@{site}|{ctx}",
                             f"[{lang}/{style}/{verb}] {label}: literal {lit} (operand {site}) is not spoken: {sp!r}", replay))
    return viol, counts, nontriv


def confirm(replay, verbose=False):
    mc = mcx.Mc()
    old = mcx._worker_mc
    mcx._worker_mc = mc
    try:
        sh = _tup(replay["shape"])
        case = (replay["label"], sh) + (tuple(replay["special"]) if replay.get("special") else ())
        v, _, _ = work((replay["lang"], replay["style"], replay["verbosity"], [case]))
    finally:
        mcx._worker_mc = old
        mc.close()
    if verbose:
        for k, w, _ in v:
            print(" ", k, "—", w)
    return {k for k, _, _ in v}


def _tup(x):
    if x is None:
        return None
    return (x[0], x[1], _tup(x[2]))


def main(tier):
    run = Run("C04", tier, "exploration")
    shapes, deep, deep4 = corpus(tier)
    run.count("terms_depth_le2", len(shapes))
    run.count("terms_depth3_core", len(deep))
    run.count("terms_depth4_core", len(deep4))
    d1 = [(terms.shape_name(sh), sh) for sh in terms.spine_shapes(1, terms.ALL_NAMES)]
    sp_cases = special_cases(shapes if tier == "thorough" else d1 + [(terms.shape_name(sh), sh) for sh in terms.spine_shapes(2, CORE12) if sh[2] is not None])
    run.count("special_literal_cases", len(sp_cases))
    jobs = []
    for lang, style, verb in lattice.speech_configs():
        cs = list(shapes)
        if tier == "thorough" or lang == "en":
            cs += deep
        if tier == "thorough" and (lang in ("en", "sv", "fi", "es")):
            cs += deep4
        cs += sp_cases
        for i in range(0, len(cs), 700):
            jobs.append((lang, style, verb, cs[i:i + 700]))
    # regional tags: depth-1 terms (thorough: depth 2) in the language's styles at Medium
    for tag in REGIONAL:
        for style in lattice.styles(tag.lower()):
            cs = d1 if tier == "quick" else list(shapes)
            for i in range(0, len(cs), 700):
                jobs.append((tag, style, "Medium", cs[i:i + 700]))
    run.count("regional_language_tags", len(REGIONAL))
    outs = []
    for _ in range(2):
        mcx._worker_mc = mcx.Mc()
        outs.append(json.dumps(work(("es", "ClearSpeak", "Medium", shapes[:80])), sort_keys=True, ensure_ascii=False))
        mcx._worker_mc.close()
        mcx._worker_mc = None
    if outs[0] != outs[1]:
        print("MACHINERY-ERROR property=C04: determinism gate failed")
        return 2
    f = terms.Filler("num", ",")
    run.sample({"config": "sv/SimpleSpeak/Verbose", "label": deep[100][0], "doc": terms.doc(terms.build(deep[100][1], f)), "planted": f.planted})
    for viol, counts, nontriv in mcx.pmap(work, jobs):
        run.merge_violations(viol)
        run.merge_counts(counts)
        for h in nontriv:
            run.nontriv(h)
    return run.finish(
        rule="all spine terms of G (39 constructs) to depth 2 with a distinct decimal literal at every operand slot, in every shipped "
             "language x style x verbosity (45 configurations); depth-3 terms over a 12-construct core (quick: English; thorough: all); "
             "thorough: depth-4 terms over the 6-construct core in en/sv/fi/es. Value-dependent wording: each of 8 decimal literals that are numerically a small "
             "integer or a half (2.0 3.0 1.0 0.0 4.0 10.0 2.00 0.5) in every numeric slot of every construct alone and of the depth-2 terms over the core (thorough: of all depth-2 terms), other slots "
             "as before, all configurations. distinct_nontrivial = distinct (configuration, speech string) pairs",
        assumptions=["'at least as often' instead of 'exactly': ClearSpeak legitimately repeats interval end points",
                     "identifiers are not checked textually (they are pronounced); the decidable core is the numeric literals"],
        confirm=confirm)
