"""C19 — illegal intent values are ignored or reported as configured.
Space: all strings of <= n tokens over a 15-token alphabet as the value of `intent` on three hosts,
both settings of IntentErrorRecovery, both orders of switching the setting on one stored expression.
Oracle: a reference recognizer for the intent grammar (harness-side) classifies every string as
definitely illegal / core-legal name(args) / undetermined; see check_case for what each class must do."""
import itertools, json, os, re, sys
sys.setrecursionlimit(100000)
from common import Run, norm_ids, is_ok, is_err, is_panic, val, short
import terms, mcx

NAME = "frob"
ALPHABET = [NAME, "_", "$a", "$b", "$zz", ":p", "2", "-3.5", "(", ")", ",", " ", "@", "é", "𝒳"]
CORE = [NAME, "$a", "$b", "(", ")", ",", ":p", "2"]
CORE6 = [NAME, "$a", "$b", "(", ")", ","]

HOSTS = {
    "mrow": (lambda v: f'<math><mrow{v}><mn arg="a">11.3</mn><mo>+</mo><mn arg="b">12.7</mn></mrow></math>', {"a": "11.3", "b": "12.7"}),
    "msup": (lambda v: f'<math><msup{v}><mn arg="a">13.9</mn><mn arg="b">14.6</mn></msup></math>', {"a": "13.9", "b": "14.6"}),
    "mi":   (lambda v: f'<math><mrow><mi{v}>x</mi><mo>=</mo><mn>15.2</mn></mrow></math>', {}),
    # hosts that canonicalization is tempted to dissolve: an mrow whose other children render as nothing (so only the argument is left),
    # one-child wrappers and a one-child msqrt - the element that carries the intent and the element that carries arg= must stay two elements
    "sparse-empty": (lambda v: f'<math><mrow><mi>y</mi><mo>=</mo><mrow{v}><mn arg="a">11.3</mn><mrow/></mrow></mrow></math>', {"a": "11.3"}),
    "sparse-phantom": (lambda v: f'<math><mrow{v}><mphantom><mi>h</mi></mphantom><mn arg="a">11.3</mn><malignmark/><mtext> </mtext></mrow></math>', {"a": "11.3"}),
    "mstyle": (lambda v: f'<math><mrow><mi>y</mi><mo>=</mo><mstyle{v}><mn arg="a">11.3</mn></mstyle></mrow></math>', {"a": "11.3"}),
    "msqrt": (lambda v: f'<math><msqrt{v}><mn arg="a">11.3</mn></msqrt></math>', {"a": "11.3"}),
}
# a host with four arguments, used for the chained applications only
HOST4 = (lambda v: f'<math><mrow{v}><mn arg="a">11.3</mn><mo>+</mo><mn arg="b">12.7</mn><mo>+</mo><mn arg="c">16.8</mn><mo>+</mo><mn arg="d">17.4</mn></mrow></math>',
         {"a": "11.3", "b": "12.7", "c": "16.8", "d": "17.4"})
_MATHML = {"math", "mi", "mn", "mo", "mtext", "ms", "mspace", "mglyph", "mrow", "mfrac", "msqrt", "mroot", "mstyle", "merror", "mpadded", "mphantom", "mfenced", "menclose", "msub", "msup",
           "msubsup", "munder", "mover", "munderover", "mmultiscripts", "mprescripts", "none", "mtable", "mtr", "mlabeledtr", "mtd", "maligngroup", "malignmark", "mstack", "mlongdiv",
           "msgroup", "msrow", "mscarries", "mscarry", "msline", "maction", "semantics", "annotation", "annotation-xml", "unknown"}
_HEADS = []


def known_heads():
    """concept names the English rule files have rules for (every 'tag:' that is not a MathML element): a well-formed intent with such a
    head - whatever the number of arguments - is honoured like one with an unknown head"""
    if not _HEADS:
        import glob
        tags = set()
        for f in glob.glob(os.path.join(mcx.RULES, "Languages", "en", "*_Rules.yaml")) + glob.glob(os.path.join(mcx.RULES, "Languages", "en", "SharedRules", "*.yaml")):
            for line in open(f, encoding="utf-8"):
                m = re.match(r"\s*-?\s*tag:\s*(.*?)\s*(#.*)?$", line)
                if m:
                    tags |= {t for t in re.findall(r"[A-Za-z][\w-]*", m.group(1)) if t not in _MATHML}
        _HEADS.extend(sorted(tags))
    return _HEADS


def known_head_strings():
    refs = ["$a", "$b", "$c", "$d"]
    return [f"{h}({','.join(refs[:n])})" for h in known_heads() for n in (1, 2, 3, 4)]


PROPS_ON_ARGS = ["frob(7:p,$a)", "frob($a:p,$b)", "frob($a,8:p:q)", "frob(-3.5:p)", "frob(9:p)", "frob($a:p:q,$b:p)", "frob($a, 7:p )", "frob(2:p,3:q,$b)"]
CHAINS = ["frob($a)($b)", "frob($a)($b)($c)", "frob($a)($b)($c)($d)", "frob($a,$b)($c)", "frob($a)($b,$c)", "frob($a)($b,$c)($d)", "frob($a,$b)($c,$d)", "frob($a)(7)($b)(8)",
          "frob($a)($b)(9)", "frob(7)(8)(9)", "frob($d)($c)($b)($a)", "frob($a,$b,$c)($d)", "frob($a)($b,$c,$d)", "frob($a)($b)($c)($d)(7)(8)"]


def attr(s):
    return ' intent="' + s.replace("&", "&amp;").replace("<", "&lt;").replace('"', "&quot;") + '"'


# ---------------------------------------------------------------------------------------------
# reference recognizer (W3C intent grammar as quoted in the anchor; character level)

def _nc_start(c):
    o = ord(c)
    return not (c.isspace() or o <= 0x40 or c in "[\\]^`" or 0x7B <= o <= 0xBF)


def _nc_cont(c):
    o = ord(c)
    return not (c.isspace() or o <= 0x2C or c in "/:;<=>?@[\\]^`" or 0x7B <= o <= 0xBF)


def lex(s):
    """-> list of (kind, text) or None on a lexical error. kinds: ( ) , prop ref name num"""
    out, i, n = [], 0, len(s)
    while i < n:
        c = s[i]
        if c in " \t\n\r":
            i += 1
            continue
        if c in "(),":
            out.append((c, c))
            i += 1
            continue
        if c in ":$":
            j = i + 1
            if j < n and _nc_start(s[j]):
                j += 1
                while j < n and _nc_cont(s[j]):
                    j += 1
                out.append(("prop" if c == ":" else "ref", s[i:j]))
                i = j
                continue
            return None
        if _nc_start(c):
            j = i + 1
            while j < n and _nc_cont(s[j]):
                j += 1
            out.append(("name", s[i:j]))
            i = j
            continue
        m = re.match(r"-?[0-9]+(\.[0-9]+)?", s[i:])
        if m:
            out.append(("num", m.group(0)))
            i += len(m.group(0))
            continue
        return None
    return out


class _P:
    def __init__(self, toks, lenient):
        self.t, self.i, self.lenient = toks, 0, lenient

    def peek(self):
        return self.t[self.i][0] if self.i < len(self.t) else None

    def eat(self, k):
        if self.peek() == k:
            self.i += 1
            return True
        return False

    def intent(self):
        if self.peek() == "prop":
            while self.eat("prop"):
                pass
            if self.lenient and self.peek() == "(":        # ":p(args)" — not in the grammar, tolerated by some readers
                return self.calls()
            return True
        return self.expression()

    def expression(self):
        if self.peek() in ("name", "num", "ref"):
            self.i += 1
            while self.eat("prop"):
                pass
            return self.calls()
        if self.lenient and self.peek() == "prop":           # property-only argument
            while self.eat("prop"):
                pass
            return self.calls()
        return False

    def calls(self):
        while self.eat("("):
            if self.eat(")"):
                continue                                       # arguments are optional in the grammar
            if not self.expression():
                return False
            while self.eat(","):
                if not self.expression():
                    return False
            if not self.eat(")"):
                return False
        return True


def parses(toks, lenient):
    p = _P(toks, lenient)
    return p.intent() and p.i == len(toks)


CORE_RE = None


def classify(s, args):
    """'illegal' | 'core' | 'undetermined'.  args: names resolvable on the host."""
    toks = lex(s)
    if toks is None or not toks:
        return "illegal"
    if not parses(toks, lenient=True):
        return "illegal"
    refs = [t[1][1:] for t in toks if t[0] == "ref"]
    if any(r not in args for r in refs):
        return "illegal"                                       # dangling reference
    # core-legal: NAME ( arg (, arg)* ) with distinct resolvable references or numbers as arguments
    kinds = [t[0] for t in toks]
    # chained applications NAME(args)(args)...: every group must be a well-formed argument list of references / numbers
    if len(toks) >= 7 and kinds[0] == "name" and toks[0][1] == NAME and len(set(refs)) == len(refs) and ") (" in " ".join(kinds):
        groups, cur, depth, okc = [], [], 0, True
        for t in toks[1:]:
            if t[0] == "(":
                depth += 1
                if depth > 1:
                    okc = False
                cur = []
            elif t[0] == ")":
                depth -= 1
                groups.append(cur)
            elif depth == 1:
                cur.append(t)
            else:
                okc = False
        for g in groups:
            if len(g) % 2 != 1 or any((j % 2 == 0 and t[0] not in ("ref", "num")) or (j % 2 == 1 and t[0] != ",") for j, t in enumerate(g)):
                okc = False
        if okc and depth == 0 and len(groups) >= 2:
            return "core"
    if (len(toks) >= 4 and kinds[0] == "name" and (toks[0][1] == NAME or toks[0][1] in known_heads()) and kinds[1] == "(" and kinds[-1] == ")"
            and len(set(refs)) == len(refs)):
        inner = [t for t in toks[2:-1]]
        # an argument (reference or number) may carry properties: strip them before looking at the list shape
        stripped, prev_arg, okp = [], False, True
        for t in inner:
            if t[0] == "prop":
                if not prev_arg:
                    okp = False
                continue
            stripped.append(t)
            prev_arg = t[0] in ("ref", "num")
        inner = stripped
        ok = okp and len(inner) % 2 == 1
        for j, t in enumerate(inner):
            if j % 2 == 0 and t[0] not in ("ref", "num"):
                ok = False
            if j % 2 == 1 and t[0] != ",":
                ok = False
        if ok:
            return "core"
    return "undetermined"


# ---------------------------------------------------------------------------------------------

def shape(s):
    """token-kind signature of an intent string (for keys): kinds joined, long strings abbreviated"""
    toks = lex(s)
    if toks is None:
        return "unlexable"
    kinds = [t[0] for t in toks]
    if toks and toks[0][0] == "name" and toks[0][1] != NAME and toks[0][1] in known_heads():
        kinds[0] = toks[0][1]           # a head the rules know: one class per head, its rule decides what happens
    return " ".join(kinds) if len(kinds) <= 12 else "long:" + " ".join(kinds[:4])


def strings(alphabet, maxlen, minlen=1):
    for n in range(minlen, maxlen + 1):
        for tup in itertools.product(alphabet, repeat=n):
            yield "".join(tup)


def mask_tree(s):
    s = norm_ids(s)
    return re.sub(r"\sdata-[a-zA-Z-]+='[^']*'", "", s) if isinstance(s, str) else s


def case_ops(doc_):
    return [
        ["pref", "IntentErrorRecovery", "IgnoreIntent"], ["mathml", doc_],      # 0 1
        ["speech"], ["speech"], ["braille", ""], ["navmml"],                   # 2 3 4 5
        ["pref", "IntentErrorRecovery", "Error"], ["speech"],                   # 6 7
        ["pref", "IntentErrorRecovery", "IgnoreIntent"], ["speech"], ["navmml"],  # 8 9 10
        ["pref", "IntentErrorRecovery", "Error"], ["mathml", doc_], ["speech"],   # 11 12 13   (error first)
        ["pref", "IntentErrorRecovery", "IgnoreIntent"], ["speech"], ["braille", ""],  # 14 15 16
    ]


def check_case(host, s, res, ref, cls, literals):
    """res: results of case_ops; ref: (speech, braille) of the attribute-free expression."""
    v = []
    rs, rb = ref
    def add(kind, what):
        # (the well-formed class is small and each of its strings is a shape of its own: the key carries the token-kind signature)
        v.append((f"C19|{host}|{cls}|{kind}" + (f"|{shape(s)}" if cls == "core" else ""), f"intent={short(s, 80)!r} on <{host}> ({cls}): {what}", {"host": host, "intent": s}))
    for i, r in enumerate(res):
        if is_panic(r):
            site = r[1] if r[0] == "p" else r[0]
            v.append((f"C19|panic|{site}|{shape(s)}", f"intent={short(s, 80)!r} (length {len(s)}) on <{host}>: call #{i} {short(r, 160)}", {"host": host, "intent": s}))
            return v
    if not is_ok(res[1]) or not is_ok(res[12]):
        add("set_mathml-failed", f"set_mathml rejected the expression: {short(res[1], 160)}")
        return v
    s1, s2, b1, t1, e1, s3, t2, e0, s4, b2 = res[2], res[3], res[4], res[5], res[7], res[9], res[10], res[13], res[15], res[16]
    # IgnoreIntent: speech never fails, whatever the string
    for nm, r in (("first speech", s1), ("repeated speech", s2), ("speech after Error->Ignore", s3), ("speech after Error-first", s4)):
        if not is_ok(r):
            add("ignore-mode-speech-fails", f"{nm} in IgnoreIntent mode failed: {short(r, 160)}")
            return v
    if val(s2) != val(s1):
        add("unstable-speech", f"speech changed on a repeated call: {val(s1)!r} then {val(s2)!r}")
    if val(s3) != val(s1) or val(s4) != val(s1):
        add("mode-history-dependent", f"IgnoreIntent speech depends on the earlier setting: {val(s1)!r} / after Error {val(s3)!r} / Error-first {val(s4)!r}")
    if is_ok(b1) and is_ok(b2) and val(b1) != val(b2):
        add("mode-history-dependent-braille", f"braille differs between the two orders: {val(b1)!r} vs {val(b2)!r}")
    if is_ok(t1) and is_ok(t2) and mask_tree(val(t1)[0]) != mask_tree(val(t2)[0]):
        add("stored-tree-changed", "speaking the expression changed the stored MathML (attribute not restored?)")
    if cls == "illegal":
        if val(s1) != rs:
            add("not-ignored", f"spoken {val(s1)!r}, but the expression without the attribute is spoken {rs!r}")
        if is_ok(b1) and rb is not None and val(b1) != rb:
            add("not-ignored-braille", f"braille {val(b1)!r} differs from the attribute-free braille {rb!r}")
        if not is_err(e1):
            add("error-mode-no-error", f"Error mode after an IgnoreIntent speech returned {short(e1, 120)} instead of an error")
        if not is_err(e0):
            add("error-mode-no-error-first", f"Error mode returned {short(e0, 120)} instead of an error")
    elif cls == "core":
        if not is_ok(e1) or not is_ok(e0):
            add("legal-rejected", f"Error mode rejected a well-formed intent: {short(e0, 160)}")
        sp = val(s1).lower()
        toks = lex(s)
        want = ([NAME] if toks[0][1] == NAME else []) + [literals[t[1][1:]] for t in toks if t[0] == "ref"] + [t[1].lstrip("-") for t in toks if t[0] == "num"]
        missing = [w for w in want if w.lower() not in sp]
        if missing:
            add("legal-not-honoured", f"speech {val(s1)!r} does not mention {missing}")
        if is_ok(e1) and val(e1) != val(s1):
            add("legal-mode-dependent", f"speech differs between modes: {val(s1)!r} vs {val(e1)!r}")
    return v


def work(item):
    host, strs = item
    mc = mcx.worker_mc()
    mk, literals = HOSTS[host] if host != "mrow4" else HOST4
    setup = [["rules_dir", mcx.RULES], ["pref", "TTS", "none"], ["pref", "Language", "en"], ["pref", "BrailleCode", "Nemeth"]]
    cases = [[["pref", "IntentErrorRecovery", "IgnoreIntent"], ["mathml", mk("")], ["speech"], ["braille", ""]]]
    cases += [case_ops(mk(attr(s))) for s in strs]
    _, res = mc.run_cases(setup, cases)
    ref = (val(res[0][2]), val(res[0][3]))
    viol, counts, nontriv = [], {"evaluations": 0, "illegal": 0, "core": 0, "undetermined": 0}, []
    if ref[0] is None:
        return [(f"C19|{host}|reference-failed", f"attribute-free expression not spoken: {short(res[0], 200)}", {"host": host, "intent": None})], counts, []
    for s, r in zip(strs, res[1:]):
        cls = classify(s, literals)
        counts["evaluations"] += 1
        counts[cls] += 1
        out = norm_ids(r)
        nontriv.append(hash((host, cls, json.dumps([x[:2] for x in out[2:8]], ensure_ascii=False))))
        viol += check_case(host, s, out, ref, cls, literals)
    return viol, counts, nontriv


def work_fresh(item):
    """speech, speech, braille in a continuing session == the same three calls in a fresh session"""
    host, strs = item
    mc = mcx.worker_mc()
    mk, _ = HOSTS[host] if host != "mrow4" else HOST4
    setup = [["rules_dir", mcx.RULES], ["pref", "TTS", "none"], ["pref", "Language", "en"], ["pref", "BrailleCode", "Nemeth"]]
    cases = [[["mathml", mk(attr(s))], ["speech"], ["speech"], ["braille", ""]] for s in strs]
    _, cont = mc.run_cases(setup, cases)
    _, fresh = mc.run_cases(setup, cases, fresh=True)
    viol = []
    for s, a, b_ in zip(strs, cont, fresh):
        a, b_ = norm_ids(a), norm_ids(b_)
        if [x[:2] for x in a] != [x[:2] for x in b_]:
            viol.append((f"C19|{host}|fresh-session-differs", f"intent={s!r}: results in a continuing session differ from a fresh session", {"host": host, "intent": s, "fresh": True}))
    return viol, {"evaluations": len(strs), "fresh_compared": len(strs)}, []


def _dispatch(job):
    return work_fresh(job[1:]) if job[0] == "F" else work(job)


def confirm(replay, verbose=False):
    mc = mcx.Mc()
    old = mcx._worker_mc
    mcx._worker_mc = mc
    try:
        if replay.get("fresh"):
            v, _, _ = work_fresh((replay["host"], [replay["intent"]]))
        else:
            v, _, _ = work((replay["host"], [replay["intent"]] if replay["intent"] is not None else []))
    finally:
        mcx._worker_mc = old
        mc.close()
    if verbose:
        for k, w, _ in v:
            print(" ", k, "—", w)
    return {k for k, _, _ in v}


NESTED = ["(" * n + ")" * n for n in (1, 5, 50, 500)] + [NAME + "(" * n + "$a" + ")" * n for n in (2, 5, 50, 500, 3000)] + \
         [(NAME + "(") * n + "$a" + ")" * n for n in (2, 5, 50, 500, 3000)] + [NAME + "(" + ",".join(["$a"] * n) + ")" for n in (2, 50, 2000)] + \
         ["", "   ", "\t\n", ":", "$", "$$a", "$a$b", "frob(($a))", "frob($a)(", "frob($a))", "frob(,$a)", "frob($a,)", "frob($a,,$b)",
          "frob($a $b)", "frob $a", "2frob", "frob(2)(3)", "frob($a)($b)", "-", "--2", "2.", ".5", "frob:p:q($a)", "$a:p", "frob($a:p,$b)",
          "frob-bar_baz($a,$b)", "frob($b,$a)", "frob($a,2)", "frob(-3.5,$b)", "𝒳($a)", "frob(é)", "<", "&amp;", "'", "\"", "frob(\u0000)".replace("\u0000", "\u0001")[:0] + "frob(#)"]


def main(tier):
    run = Run("C19", tier, "exploration")
    sets = []
    if tier == "quick":
        sets.append(list(strings(ALPHABET, 3)))
        sets.append(list(strings(CORE, 4, 4)))
        sets.append(list(strings(CORE6, 6, 5))[::3] if False else list(strings(CORE6, 5, 5)))
    else:
        sets.append(list(strings(ALPHABET, 4)))
        sets.append(list(strings(CORE, 5, 5)))
        sets.append(list(strings(CORE6, 7, 6)))
    sets.append(NESTED)
    allstr = sorted(set(s for st in sets for s in st), key=lambda x: (len(x), x))
    run.count("distinct_strings", len(allstr))
    jobs = [("mrow4", list(CHAINS) + list(PROPS_ON_ARGS)), ("mrow", list(PROPS_ON_ARGS)), ("msup", list(PROPS_ON_ARGS))]
    kh = known_head_strings()
    run.count("known_head_strings", len(kh))
    for i in range(0, len(kh), 62):
        jobs.append(("mrow4", kh[i:i + 62]))
    for host in HOSTS:
        for i in range(0, len(allstr), 250):
            jobs.append((host, allstr[i:i + 250]))
        small = [s for s in allstr if len(lex(s) or []) <= 2 and len(s) < 12][:400]
        for i in range(0, len(small), 40):
            jobs.append(("F", host, small[i:i + 40]))
    # determinism gate
    outs = []
    for _ in range(2):
        mcx._worker_mc = mcx.Mc()
        outs.append(json.dumps(work(("mrow", allstr[100:160])), sort_keys=True, ensure_ascii=False))
        mcx._worker_mc.close()
        mcx._worker_mc = None
    if outs[0] != outs[1]:
        print("MACHINERY-ERROR property=C19: determinism gate failed")
        return 2
    for s in ("frob($a,$b)", "frob($zz)", "$a(", ":p 2"):
        run.sample({"intent": s, "class_on_mrow_host": classify(s, HOSTS["mrow"][1]), "host": HOSTS["mrow"][0](attr(s))})
    for viol, counts, nontriv in mcx.pmap(_dispatch, jobs):
        run.merge_violations(viol)
        run.merge_counts(counts)
        for h in nontriv:
            run.nontriv(h)
    n = 3 if tier == "quick" else 4
    return run.finish(
        rule=f"every string of <= {n} tokens over the 15-token alphabet {ALPHABET!r}, longer strings over core sub-alphabets, nesting ladders and "
             "hand-written edge strings, as intent= on three hosts (mrow with arg children, msup with arg children, a leaf); per string 17 calls "
             "covering IgnoreIntent, Error, both switching orders on one stored expression, repeated calls, braille, stored tree. "
             "distinct_nontrivial = distinct (host, class, observed result vector) combinations",
        assumptions=["the reference recognizer implements the grammar quoted in the anchor; strings it accepts only under lenient extensions "
                     "(':p(args)', property-only arguments, f(), repeated references) are 'undetermined': only 'never fails in IgnoreIntent mode / never panics' is demanded of them",
                     "English, TTS=none, Nemeth"],
        confirm=confirm)
