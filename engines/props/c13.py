"""C13 — speech-engine markup is well formed and never changes the words.
Space: terms of G (depth <= 2) and trigger terms (capitals, chemistry, long rows for auto pauses) x languages x
engine in {SSML, SAPI5} x rate / pitch / volume / pause factor / math rate / capital pitch / beep / bookmark.
Oracle: tag tokenizer + stack checker over the engine's vocabulary with attribute syntax; tag-stripped
words equal the engine=none words of the same configuration; bookmark names are ids of the expression."""
import itertools, json, re
from common import Run, is_ok, is_err, is_panic, val, short, norm_ids
import terms, mcx, lattice, canon_run

VOCAB = {
    "SSML": {"prosody", "break", "say-as", "phoneme", "mark", "audio", "voice", "emphasis", "sub", "s", "p", "speak"},
    "SAPI5": {"silence", "pitch", "rate", "volume", "voice", "spell", "pron", "bookmark", "emph", "context", "partofsp", "lang"},
}
EMPTY_OK = {"break", "mark", "silence", "bookmark", "audio"}
TAG = re.compile(r"<(/?)([A-Za-z][\w-]*)((?:\s+[\w:-]+\s*=\s*(?:'[^'<]*'|\"[^\"<]*\"))*)\s*(/?)>")
ATTR = re.compile(r"([\w:-]+)\s*=\s*(?:'([^'<]*)'|\"([^\"<]*)\")")
NUMERIC = {
    ("prosody", "pitch"): r"[+-]?\d+(\.\d+)?%", ("prosody", "rate"): r"[+-]?\d+(\.\d+)?%", ("prosody", "volume"): r"[+-]?\d+(\.\d+)?(db|dB)?",
    ("break", "time"): r"\d+(\.\d+)?m?s", ("silence", "msec"): r"\d+", ("pitch", "middle"): r"[+-]?\d+", ("pitch", "absmiddle"): r"[+-]?\d+",
    ("rate", "speed"): r"[+-]?\d+(\.\d+)?", ("rate", "absspeed"): r"[+-]?\d+(\.\d+)?", ("volume", "level"): r"\d+(\.\d+)?",
}


def check_markup(s, engine):
    """-> list of (class, detail); also returns (plain text, bookmark names)"""
    out, stack, marks = [], [], []
    pos, plain = 0, []
    for m in re.finditer(r"<(?=/?[A-Za-z])[^<>]*>?|<", s):
        plain.append(s[pos:m.start()])
        pos = m.end()
        if m.group(0) == "<":
            out.append(("raw-less-than-in-text", s[m.start():m.start() + 12]))
            plain.append("<")
            continue
        t = TAG.fullmatch(m.group(0))
        if not t:
            out.append(("malformed-tag", m.group(0)[:50]))
            continue
        close, name, attrs, selfclose = t.group(1), t.group(2), t.group(3), t.group(4)
        if name not in VOCAB[engine]:
            out.append((f"foreign-tag|{name}", m.group(0)[:50]))
            continue
        if close:
            if attrs.strip() or selfclose:
                out.append((f"bad-end-tag|{name}", m.group(0)[:50]))
            if not stack:
                out.append((f"unopened|{name}", m.group(0)[:50]))
            elif stack[-1] != name:
                out.append((f"mismatched|{stack[-1]}|closed-by:{name}", f"<{stack[-1]}> closed by {m.group(0)}"))
                if name in stack:
                    while stack and stack[-1] != name:
                        stack.pop()
                    stack.pop()
            else:
                stack.pop()
            continue
        for am in ATTR.finditer(attrs):
            an, av = am.group(1), am.group(2) if am.group(2) is not None else am.group(3)
            pat = NUMERIC.get((name, an))
            if pat and not re.fullmatch(pat, av.strip()):
                out.append((f"bad-attribute|{name}|{an}", f"{an}={av!r}"))
            if (name, an) in (("mark", "name"), ("bookmark", "mark")):
                marks.append(av)
        if not selfclose:
            stack.append(name)
    plain.append(s[pos:])
    for name in stack:
        out.append((f"unclosed|{name}", f"<{name}> never closed"))
    return out, "".join(plain), marks


def words(s):
    s = s.replace("eigh", "a")        # the rule files say "eigh" for the letter a only when no engine can be told to spell
    return re.sub(r"[\s,;]+", "", s).lower()


DEFAULTS = {"Rate": "180", "Pitch": "0", "Volume": "100", "PauseFactor": "100", "MathRate": "100", "CapitalLetters_Pitch": "0",
            "CapitalLetters_Beep": "false", "Bookmark": "false", "CapitalLetters_UseWord": "true"}
ALT = {"Rate": ["90", "300"], "Pitch": ["20"], "Volume": ["50"], "PauseFactor": ["0", "300"], "MathRate": ["150"], "CapitalLetters_Pitch": ["30"],
       "CapitalLetters_Beep": ["true"], "Bookmark": ["true"], "CapitalLetters_UseWord": ["false"]}


def pref_sets(tier):
    sets = [dict(DEFAULTS)]
    for k, alts in ALT.items():
        for a in alts:
            d = dict(DEFAULTS)
            d[k] = a
            sets.append(d)
    alln = dict(DEFAULTS)
    for k, alts in ALT.items():
        alln[k] = alts[-1]
    sets.append(alln)
    if tier == "thorough":
        keys = list(ALT)
        for a, b in itertools.combinations(keys, 2):
            d = dict(DEFAULTS)
            d[a], d[b] = ALT[a][-1], ALT[b][-1]
            sets.append(d)
    return sets


def corpus(tier):
    out = []
    for sh in terms.spine_shapes(2 if tier == "thorough" else 1):
        out.append((terms.shape_name(sh), terms.build(sh, terms.Filler("mixed"))))
    for name, t in canon_run.special_terms():
        out.append(("special:" + name, t))
    caps = [
        terms.row(terms.mi("A"), terms.mo("="), terms.mi("π"), terms.el("msup", terms.mi("r"), terms.mn("2"))),
        terms.row(terms.mi("P"), terms.mo("("), terms.mi("A"), terms.mo("∩"), terms.mi("B"), terms.mo(")"), terms.mo("="), terms.mi("P"), terms.mo("("), terms.mi("A"), terms.mo(")"), terms.mi("P"), terms.mo("("), terms.mi("B"), terms.mo(")")),
        terms.row(terms.el("msub", terms.mi("C"), terms.mn("6")), terms.el("msub", terms.mi("H"), terms.mn("12")), terms.el("msub", terms.mi("O"), terms.mn("6"))),
        terms.row(*[x for i in range(8) for x in (terms.el("mfrac", terms.mi("x"), terms.mn(str(i + 2))), terms.mo("+"))][:-1]),
        terms.row(terms.mi("a"), terms.mo("+"), terms.mi("A"), terms.mo("+"), terms.mi("b"), terms.mi("B")),
        terms.el("mover", terms.mi("AB"), terms.mo("¯")),
    ]
    for i, t in enumerate(caps):
        out.append((f"caps:{i}", t))
    return out


def work(item):
    lang, engine, prefs, cases = item
    mc = mcx.worker_mc()
    base = [["rules_dir", mcx.RULES], ["pref", "Language", lang]] + [["pref", k, v] for k, v in prefs.items()]
    ops = [[["mathml", _doc(t)], ["pref", "TTS", "none"], ["speech"], ["pref", "TTS", engine], ["speech"]] for _, t in cases]
    _, res = mc.run_cases(base, ops)
    pn = ",".join(f"{k}={v}" for k, v in prefs.items() if DEFAULTS[k] != v) or "defaults"
    pk = "+".join(k for k, v in prefs.items() if DEFAULTS[k] != v) or "defaults"
    viol, counts, nontriv = [], {"evaluations": 0, "skipped_panics": 0, "rejected": 0, "speech_errors": 0, "tags_seen": 0}, []
    for (label, t), r in zip(cases, res):
        counts["evaluations"] += 1
        if any(is_panic(x) for x in r):
            counts["skipped_panics"] += 1
            continue
        if not is_ok(r[0]):
            counts["rejected"] += 1
            continue
        if not is_ok(r[2]) or not is_ok(r[4]):
            counts["speech_errors"] += 1
            if is_ok(r[2]) != is_ok(r[4]):
                viol.append((f"C13|{engine}|engine-changes-outcome", f"[{lang} {engine} {pn}] {label}: speech is {r[2][0]} without an engine and {r[4][0]} with it", _rp(lang, engine, prefs, label, t)))
            continue
        plain_ref, marked = val(r[2]), val(r[4])
        problems, plain, marks = check_markup(marked, engine)
        counts["tags_seen"] += marked.count("<")
        nontriv.append(hash((lang, engine, pk, norm_ids(marked))))
        replay = _rp(lang, engine, prefs, label, t)
        for cls_, detail in problems:
            if cls_ in ("malformed-tag", "raw-less-than-in-text") and detail.split()[0][:6] in plain_ref:
                # the "tag" is text of the expression itself (a '<' or '&' of a token) that was not escaped for the engine
                viol.append((f"C13|{engine}|xml-special-in-text", f"[{lang} {engine} {pn}] {label}: text of the expression reaches the engine unescaped: {detail!r} in {short(norm_ids(marked), 160)!r}", replay))
                continue
            viol.append((f"C13|{engine}|{cls_}|{pk}", f"[{lang} {engine} {pn}] {label}: {cls_}: {detail} in {short(norm_ids(marked), 200)!r}", replay))
        if any(TAG.fullmatch(m.group(0)) and TAG.fullmatch(m.group(0)).group(2) in (VOCAB["SSML"] | VOCAB["SAPI5"])
               for m in re.finditer(r"<(?=/?[A-Za-z])[^<>]*>", plain_ref)):
            viol.append((f"C13|none|markup-without-engine", f"[{lang} none {pn}] {label}: markup although no engine is selected: {short(norm_ids(plain_ref), 160)!r}", replay))
        if not problems and words(plain) != words(plain_ref):
            viol.append((f"C13|{engine}|words-differ|{pk}|{canon_run.label_class(label)}", f"[{lang} {engine} {pn}] {label}: words {norm_ids(plain.strip())!r} differ from the engine-free words {norm_ids(plain_ref.strip())!r}", replay))
        if marks:
            ids = set(re.findall(r"\sid='([^']*)'", val(r[0])))
            for m in marks:
                if m not in ids:
                    viol.append((f"C13|{engine}|bookmark-not-an-id", f"[{lang} {engine} {pn}] {label}: bookmark {norm_ids(m)!r} is not an id of the expression", replay))
    return viol, counts, nontriv


def _doc(t):
    return t if isinstance(t, str) else terms.doc(t)


def _rp(lang, engine, prefs, label, t):
    return {"lang": lang, "engine": engine, "prefs": prefs, "label": label, "doc": _doc(t)}


def test_corpus():
    """the MathML inputs of the repository's own tests (inputs only): they make rules fire that the grammar's terms do not reach"""
    import hashlib, testcorpus
    return [("test:" + hashlib.sha1(x.encode()).hexdigest()[:10], x) for x in testcorpus.expressions()]


def confirm(replay, verbose=False):
    mc = mcx.Mc()
    old = mcx._worker_mc
    mcx._worker_mc = mc
    try:
        t = replay["doc"] if replay["label"].startswith("test:") else terms.parse_xml(replay["doc"]).kids[0]
        v, _, _ = work((replay["lang"], replay["engine"], replay["prefs"], [(replay["label"], t)]))
    finally:
        mcx._worker_mc = old
        mc.close()
    if verbose:
        for k, w, _ in v:
            print(" ", k, "—", w)
    return {k for k, _, _ in v}


def main(tier):
    run = Run("C13", tier, "exploration")
    corp = corpus(tier)
    sets = pref_sets(tier)
    run.count("terms", len(corp))
    run.count("preference_sets", len(sets))
    langs = ["en", "es", "sv"] if tier == "quick" else lattice.languages()
    jobs = []
    for lang in langs:
        for engine in ("SSML", "SAPI5"):
            for prefs in sets:
                for i in range(0, len(corp), 400):
                    jobs.append((lang, engine, prefs, corp[i:i + 400]))
    # boundary ladder for the numeric preferences (tag generation computes relative/rounded values from them): one preference at a time
    # away from its default, both engines, on the expressions that exercise pitch/rate/pause/volume changes
    LADDER = ["-100", "-50", "-10", "-2", "-1", "0", "1", "2", "5", "10", "50", "99", "100", "101", "150", "400", "1000",
              # what the number parser also accepts: not-a-number, infinities, huge and tiny magnitudes, a negative zero, exponent notation
              "NaN", "inf", "-inf", "1e400", "1e30", "1e-30", "-0", "3.7e2", "0.001"]
    small = [c for c in corp if c[0].startswith("caps:")] + corp[:6]
    nl = 0
    for k in ("Rate", "Pitch", "Volume", "PauseFactor", "MathRate", "CapitalLetters_Pitch"):
        for v in LADDER:
            for extra in ({}, {"CapitalLetters_Pitch": "30"} if k != "CapitalLetters_Pitch" else {"Pitch": "20"}):
                d = dict(DEFAULTS)
                d.update(extra)
                d[k] = v
                for engine in ("SSML", "SAPI5"):
                    jobs.append(("en", engine, d, small))
                    nl += 1
    run.count("numeric_ladder_jobs", nl)
    tc = test_corpus()
    run.count("test_suite_expressions", len(tc))
    bm = dict(DEFAULTS)
    bm["Bookmark"] = "true"
    for engine in ("SSML", "SAPI5"):
        for prefs in ([bm, sets[-1]] if tier == "thorough" else [sets[-1]]):
            for i in range(0, len(tc), 250):
                jobs.append(("en", engine, prefs, tc[i:i + 250]))
    # author ids that are not 'n7'-like names: one character (a letter, a digit, an operator character the speech tables know),
    # blanks, quotes, XML-special and non-ASCII characters - as bookmark names they must come back verbatim (escaped as XML requires)
    import html
    odd = []
    for i_, idv in enumerate(["+", "a", "x", "2", "\u00e9", "a b", "<", "&", "'", "\u03b1", "=", "A", "-", "1.5", "cap"]):
        e_ = html.escape(idv, quote=True)
        odd.append((f"oddid:{i_}", f'<math><mrow id="{e_}"><mi id="{e_}{e_}">y</mi><mo>=</mo><mfrac id="f{e_}"><mn id="{e_}1">1</mn><mi>A</mi></mfrac></mrow></math>'))
        odd.append((f"oddid-leaf:{i_}", f'<math><mi id="{e_}">x</mi></math>'))
    run.count("odd_author_id_documents", len(odd))
    for engine in ("SSML", "SAPI5"):
        jobs.append(("en", engine, bm, odd))
        jobs.append(("es", engine, bm, odd))
    outs = []
    for _ in range(2):
        mcx._worker_mc = mcx.Mc()
        outs.append(json.dumps(work(("en", "SSML", sets[-1], corp[:40])), sort_keys=True, ensure_ascii=False))
        mcx._worker_mc.close()
        mcx._worker_mc = None
    if outs[0] != outs[1]:
        print("MACHINERY-ERROR property=C13: determinism gate failed")
        return 2
    run.sample({"config": "en SSML CapitalLetters_Beep=true Bookmark=true", "doc": terms.doc(corp[-6][1])})
    for viol, counts, nontriv in mcx.pmap(work, jobs):
        run.merge_violations(viol)
        run.merge_counts(counts)
        for h in nontriv:
            run.nontriv(h)
    return run.finish(
        rule=f"terms: spine terms of G to depth {'1' if tier == 'quick' else '2'}, the trigger terms and 6 capital/chemistry/long-row terms; languages "
             f"{langs}; engines SSML and SAPI5 (each compared with engine none in the same session); preference sets: defaults, each of "
             "Rate{90,300} Pitch{20} Volume{50} PauseFactor{0,300} MathRate{150} CapitalLetters_Pitch{30} CapitalLetters_Beep CapitalLetters_UseWord{false} Bookmark; "
             "plus a 26-step boundary ladder (-100 .. 1000, NaN, infinities, huge / tiny magnitudes, exponent notation) for each of the six numeric preferences alone and combined with one other pitch setting, both engines, on the capital-letter expressions; "
             "alone, all together; the MathML inputs of the repository's own tests (inputs only) in English with all preferences set together, both engines" + (", and every pair" if tier == "thorough" else "") + ". distinct_nontrivial = distinct (language, engine, preference set, marked-up speech) results",
        assumptions=["word comparison ignores white space and the pause punctuation , ; and reads 'eigh' as the letter a (rule files spell the letter only when an engine can)",
                     "tag vocabularies are those of SSML 1.1 and SAPI5 XML TTS"],
        confirm=confirm)
