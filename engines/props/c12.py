"""C12 — preferences read back as set, persist, and bad settings are rejected.
History exploration over set_preference / get_preference / set_mathml / getters against a reference model of
the preference store (kind table from prefs.yaml and the API defaults, last-writer-wins map with the documented
normalisations).  Every history runs in a fresh session; after it the complete preference snapshot is compared
with the model."""
import itertools, json, os, re
from common import Run, norm_ids, is_ok, is_err, is_panic, val, short
import terms, mcx
from terms import mi, mn, mo, row, el

GENERIC = ["true", "TRUE", "false", "0", "20", "1.5", "-3", "abc", "", "Auto"]
MEMBERS = {
    "SpeechStyle": ["ClearSpeak", "SimpleSpeak"], "Verbosity": ["Terse", "Medium", "Verbose"], "BrailleCode": ["Nemeth", "UEB", "CMU", "LaTeX"],
    "NavMode": ["Enhanced", "Simple", "Character"], "BrailleNavHighlight": ["Off", "FirstChar", "EndPoints", "All"], "TTS": ["none", "SSML", "SAPI5"],
    "Impairment": ["Blindness", "LowVision", "LearningDisability"], "Language": ["en", "es", "en-GB", "sv", "Auto", "en-gb-oed"],
    "DecimalSeparator": ["Auto", ".", ","], "NavVerbosity": ["Terse", "Medium", "Verbose"], "IntentErrorRecovery": ["IgnoreIntent", "Error"],
    "ClearSpeak_Fractions": ["Auto", "Over", "General"], "ClearSpeak_Roots": ["Auto", "RootEnd"], "CheckRuleFiles": ["Prefs", "All", "None"],
    "UEB_START_MODE": ["Grade1", "Grade2"], "Chemistry": ["SpellOut", "Off"], "CopyAs": ["MathML", "LaTeX"],
}
BAD_LANG = ["e", "english", "en_GB", "1", "-gb"]
DEPENDENT = {"Language": {"DecimalSeparators", "BlockSeparators", "LanguageAuto"}, "LanguageAuto": {"DecimalSeparators", "BlockSeparators"},
             "DecimalSeparator": {"DecimalSeparators", "BlockSeparators"}}
FLOAT_NAMES = {"Pitch", "Rate", "Volume", "CapitalLetters_Pitch", "MathRate", "PauseFactor"}


def known_prefs():
    """name -> kind ('boolean' | 'number' | 'string'), read from Rules/prefs.yaml and the defaults in src/prefs.rs"""
    kinds = {}
    doc = mcx.yaml2json(os.path.join(mcx.RULES, "prefs.yaml"))[0]

    def walk(node, prefix, depth):
        for kv in node:
            k, v = kv["k"], kv["v"]
            if isinstance(v, list):
                walk(v, (prefix + k.strip() + "_") if depth > 0 else "", depth + 1)
            else:
                name = prefix + k.strip()
                kinds[name] = "boolean" if isinstance(v, bool) else "number" if (isinstance(v, (int, float)) or (isinstance(v, dict) and "real" in v)) else "string"
    walk(doc, "", 0)
    for m in re.finditer(r'prefs\.insert\("([^"]+)"\.to_string\(\),\s*Yaml::(\w+)\(', open(os.path.join(mcx.SRC, "prefs.rs"), encoding="utf-8").read()):
        name, y = m.group(1), m.group(2)
        k = "boolean" if y == "Boolean" else "number" if y in ("Real", "Integer") else "string"
        if name not in kinds or k != "string":
            kinds.setdefault(name, k)
            if y in ("Boolean", "Real", "Integer"):
                kinds[name] = k
    for n in FLOAT_NAMES:
        kinds[n] = "number"
    return kinds


def num_display(v):
    """Rust f64 Display of a tame literal"""
    f = float(v)
    return str(int(f)) if f == int(f) and abs(f) < 1e15 else repr(f)


class Model:
    def __init__(self, kinds, initial):
        self.kinds, self.vals = kinds, dict(initial)

    def judge(self, n, v):
        """-> ('accept', readback) | ('reject', None) | ('either', None)"""
        if n not in self.kinds:
            return "reject", None
        k = self.kinds[n]
        if n in ("Language", "LanguageAuto"):
            if n == "LanguageAuto":
                if v == "Auto" or self.vals.get("Language") != "Auto":
                    return "reject", None
            if v == "Auto":
                return "accept", v
            parts = v.split("-")
            if len(parts[0]) != 2:
                return "reject", None
            if not parts[0].isalpha():
                return "either", None
            return "accept", "-".join(parts[:2]) if len(parts) > 1 and parts[1] else parts[0]
        if k == "boolean":
            return ("accept", v.lower()) if v.lower() in ("true", "false") else ("reject", None)
        if k == "number":
            if re.fullmatch(r"[+-]?(\d+(\.\d*)?|\.\d+)", v):
                return "accept", num_display(v)
            if v.lower() in ("true", "false") or not re.fullmatch(r"[+-]?(\d+(\.\d*)?|\.\d+)([eE][+-]?\d+)?|inf|nan|infinity", v.lower()):
                return "reject", None
            return "either", None
        # string preference: any string is of the right kind; strings that select rule files may be refused if no such file exists
        if n in MEMBERS and v not in MEMBERS[n]:
            return "either", None
        return "accept", v

    def apply(self, n, readback):
        self.vals[n] = readback


PROBE = terms.doc(row(mn("3.5"), mo("+"), el("mfrac", mi("A"), mn("2")), mo("="), el("msqrt", mi("x"))))
PROBE2 = terms.doc(row(mi("x"), mo("⊕"), mn("1234")))


def snapshot_ops(names):
    return [["getpref", n] for n in names]


def disturbance():
    # queries made while NO expression is set (they fail - and must leave the preferences alone all the same), then the series with expressions
    return [["nodeat", 0], ["brpos"], ["navid"], ["navmml"], ["braille", ""], ["navbraille"], ["speech"], ["overview"], ["nav", "ZoomIn"], ["setnav", "x", 0], ["mathml", "<math><mi>broken"],
            ["nodeat", 1], ["brpos"],
            ["mathml", PROBE], ["speech"], ["braille", ""], ["navid"], ["braille", {"r": 3, "k": 0}], ["nodeat", 0], ["nodeat", 9999], ["brpos"], ["overview"],
            ["nav", "ZoomIn"], ["nav", "MoveNext"], ["nav", "ToggleSpeakMode"], ["nav", "ToggleSpeakMode"], ["setnav", {"r": 3, "k": 0}, 0],
            ["mathml", PROBE2], ["speech"], ["braille", ""], ["nodeat", 1], ["mathml", "<math><mi>broken"], ["mathml", PROBE]]


def use_phase():
    """the library in ordinary use BEFORE a preference is written: an expression, every kind of output, navigation commands of every
    class (move, zoom, read, describe, toggles back and forth, place marker) - state that navigation writes back into the preferences
    must keep its kind"""
    return [["mathml", PROBE], ["speech"], ["braille", ""], ["overview"], ["nav", "ZoomIn"], ["nav", "MoveNext"], ["nav", "ReadCurrent"], ["nav", "DescribeCurrent"],
            ["nav", "ToggleSpeakMode"], ["nav", "ToggleSpeakMode"], ["nav", "ToggleZoomLockUp"], ["nav", "ToggleZoomLockDown"], ["nav", "SetPlacemarker1"], ["nav", "ZoomOut"], ["navid"], ["brpos"]]


def after_write():
    return [["nav", "ZoomIn"], ["nav", "MoveNext"], ["speech"], ["nav", "ZoomOut"]]


def run_histories(mc, hists, names, with_disturbance=False, in_use=False):
    """each history (list of (name, value)) in a fresh session; returns per history (set results, final snapshot)"""
    cases = []
    pre = use_phase() if in_use else []
    for h in hists:
        ops = pre + [["pref", n, v] for n, v in h]
        ops += [["getpref", h[-1][0]]]
        if with_disturbance:
            ops += disturbance()
        if in_use:
            ops += after_write()
        ops += snapshot_ops(names)
        cases.append(ops)
    _, res = mc.run_cases([["rules_dir", mcx.RULES]], cases, fresh=True)
    out = []
    for h, r in zip(hists, res):
        r = r[len(pre):]
        nset = len(h)
        snap = {n: (x[1] if x[0] == "o" else None) for n, x in zip(names, r[-len(names):])}
        out.append((r[:nset], r[nset], snap, r))
    return out


def check_history(h, sets, readback, snap, kinds, initial, disturbed=False, in_use=False):
    """-> list of (key, what)"""
    if in_use:
        # same claims, made while the library is in use: keys carry their own tag so that nothing recorded for a fresh session can hide them
        return [(k.replace("C12|", "C12|in-use|", 1), w + " [written after an expression, outputs and navigation commands]") for k, w in check_history(h, sets, readback, snap, kinds, initial, disturbed=True)]
    out = []
    m = Model(kinds, initial)
    exempt = set()
    for (n, v), r in zip(h, sets):
        if is_panic(r):
            return [("__panic__", "")]
        verdict, rb = m.judge(n, v)
        kind = kinds.get(n, "unknown")
        vclass = value_class(v)
        if verdict == "accept":
            if not is_ok(r):
                out.append((f"C12|valid-setting-refused|{name_class(n, kinds)}|{vclass}", f"set_preference({n!r}, {v!r}) was refused: {short(r, 120)}"))
            else:
                if m.vals.get(n) is None or m.vals.get(n) != rb:
                    exempt |= DEPENDENT.get(n, set())      # a write that CHANGES the value may recompute the derived preferences ...
                m.apply(n, rb)                              # ... re-sending the current value may change nothing at all
                exempt.discard(n)                           # an explicit accepted write makes a derived preference known again
        elif verdict == "reject":
            if is_ok(r):
                out.append((f"C12|bad-setting-accepted|{name_class(n, kinds)}|{vclass}", f"set_preference({n!r}, {v!r}) ({'unknown name' if kind == 'unknown' else kind + ' preference'}) was accepted"))
                m.vals[n] = None          # unknown what it reads back as; do not cascade
                exempt.add(n)
        else:
            if is_ok(r):
                m.vals[n] = None
                exempt.add(n)
            exempt |= DEPENDENT.get(n, set())
    n_last = h[-1][0]
    if m.vals.get(n_last) is not None and n_last in kinds:
        if not is_ok(readback) or val(readback) != m.vals[n_last]:
            out.append((f"C12|readback-differs|{name_class(n_last, kinds)}|{value_class(h[-1][1])}", f"after {h}: get_preference({n_last!r}) is {short(readback, 80)}, expected {m.vals[n_last]!r}"))
    written = {x[0] for x in h}
    for n, want in m.vals.items():
        if n in exempt or want is None or n not in snap or n == n_last:
            continue            # (the last written name is judged by the read-back check above)
        if snap[n] != want:
            tag = "after-queries" if disturbed else "after-set"
            out.append((f"C12|other-preference-changed|{tag}|{n}", f"after {h}{' and a series of set_mathml/getter calls' if disturbed else ''}: {n} reads {snap[n]!r}, expected {want!r}"))
    return out


def name_class(n, kinds):
    k = kinds.get(n)
    if k is None:
        return "unknown-name"
    if n in ("Language", "LanguageAuto"):
        return n
    return k + "-pref"


def value_class(v):
    if v.lower() in ("true", "false"):
        return "boolean-literal"
    if re.fullmatch(r"[+-]?(\d+(\.\d*)?|\.\d+)", v):
        return "number-literal"
    if v == "":
        return "empty"
    return "text"


def work(item):
    kind, hists, names, kinds, initial = item
    mc = mcx.worker_mc()
    viol, counts, nontriv = [], {"evaluations": 0, "skipped_panics": 0}, []
    res = run_histories(mc, hists, names, with_disturbance=(kind == "D"), in_use=(kind == "F"))
    for h, (sets, rb, snap, raw) in zip(hists, res):
        counts["evaluations"] += 1
        v = check_history(h, sets, rb, snap, kinds, initial, disturbed=(kind == "D"), in_use=(kind == "F"))
        if v and v[0][0] == "__panic__":
            counts["skipped_panics"] += 1
            continue
        nontriv.append(hash((json.dumps(h), json.dumps([x[0] for x in sets]), json.dumps(rb[:2]))))
        for k, w in v:
            viol.append((k, w, {"kind": kind, "history": h}))
    return viol, counts, nontriv


def work_independence(item):
    """a speech-only preference must not change braille or the canonical MathML, a braille-only one must not change speech, a
    navigation one neither"""
    group, pairs = item
    mc = mcx.worker_mc()
    viol, counts = [], {"evaluations": 0, "independence_pairs": 0}
    cases = []
    for n, v1, v2 in pairs:
        for v in (v1, v2):
            cases.append([["pref", "TTS", "none"], ["pref", n, v], ["mathml", PROBE], ["speech"], ["braille", ""], ["overview"]])
    _, res = mc.run_cases([["rules_dir", mcx.RULES]], cases, fresh=True)
    for i, (n, v1, v2) in enumerate(pairs):
        a, b_ = norm_ids(res[2 * i]), norm_ids(res[2 * i + 1])
        counts["evaluations"] += 1
        if not (is_ok(a[1]) and is_ok(b_[1])):
            continue
        counts["independence_pairs"] += 1
        what = {"Speech": [(2, "canonical MathML"), (4, "braille")], "Braille": [(2, "canonical MathML"), (3, "speech"), (5, "overview")],
                "Navigation": [(2, "canonical MathML"), (3, "speech"), (4, "braille"), (5, "overview")]}[group]
        for idx, nm in what:
            if a[idx][:2] != b_[idx][:2]:
                viol.append((f"C12|not-independent|{group}|{n}|{nm.split()[0]}", f"{group} preference {n}: {nm} differs between {v1!r} ({short(a[idx], 80)}) and {v2!r} ({short(b_[idx], 80)})",
                             {"kind": "I", "group": group, "pair": [n, v1, v2]}))
    return viol, counts, []


def _dispatch(job):
    return work_independence(job[1:]) if job[0] == "I" else work(job)


def confirm(replay, verbose=False):
    mc = mcx.Mc()
    old = mcx._worker_mc
    mcx._worker_mc = mc
    try:
        kinds = known_prefs()
        names = sorted(kinds)
        initial = initial_snapshot(mc, names)
        if replay["kind"] == "I":
            v, _, _ = work_independence((replay["group"], [tuple(replay["pair"])]))
        else:
            v, _, _ = work((replay["kind"], [[tuple(x) for x in replay["history"]]], names, kinds, initial))
    finally:
        mcx._worker_mc = old
        mc.close()
    if verbose:
        for k, w, _ in v:
            print(" ", k, "—", w)
    return {k for k, _, _ in v}


def initial_snapshot(mc, names):
    _, res = mc.run_cases([["rules_dir", mcx.RULES]], [snapshot_ops(names)], fresh=True)
    return {n: (x[1] if x[0] == "o" else None) for n, x in zip(names, res[0])}


def groups():
    """name -> top-level group of prefs.yaml"""
    doc = mcx.yaml2json(os.path.join(mcx.RULES, "prefs.yaml"))[0]
    out = {}

    def walk(node, prefix, top):
        for kv in node:
            k, v = kv["k"], kv["v"]
            if isinstance(v, list):
                walk(v, (prefix + k.strip() + "_") if top else "", top or k)
            else:
                out[prefix + k.strip()] = top
    walk(doc, "", None)
    return out


def main(tier):
    run = Run("C12", tier, "model_checking")
    kinds = known_prefs()
    names = sorted(kinds)
    mc = mcx.Mc()
    initial = initial_snapshot(mc, names)
    missing = [n for n in names if initial[n] is None]
    if len(names) < 60 or len(missing) > 5:
        print(f"MACHINERY-ERROR property=C12: preference table looks wrong ({len(names)} names, {missing[:5]} unreadable)")
        return 2
    for n in missing:
        kinds.pop(n)
    names = sorted(kinds)
    initial = {n: initial[n] for n in names}
    if initial_snapshot(mcx.Mc(), names) != initial:
        print("MACHINERY-ERROR property=C12: determinism gate failed")
        return 2
    mc.close()
    run.count("known_preference_names", len(names))

    def values_for(n):
        vs = list(GENERIC) + MEMBERS.get(n, []) + [initial.get(n) or ""] + [(initial.get(n) or "x").swapcase()]
        if n in ("Language", "LanguageAuto"):
            vs += BAD_LANG
        if kinds.get(n) == "number":
            vs += ["1e999", "0x10", "12abc", "NaN"]
        return sorted(set(vs))
    allnames = names + ["NoSuchPreference", "language", "Foo_Bar"]
    jobs = []
    # A: every name x every value, one write
    A = [[(n, v)] for n in allnames for v in values_for(n)]
    # B: every name, every ordered pair of values (a stored value of one kind meets a write of another)
    B = [[(n, v1), (n, v2)] for n in allnames for v1 in values_for(n) for v2 in values_for(n)]
    if tier == "quick":
        B = [h for h in B if value_class(h[0][1]) != value_class(h[1][1]) or h[0][0] in MEMBERS]
    # C: cross-name sequences over a 12-name core
    core = ["Language", "LanguageAuto", "SpeechStyle", "BrailleCode", "Verbosity", "DecimalSeparator", "TTS", "Pitch", "Bookmark", "Blind", "NavMode", "NoSuchPreference"]
    cvals = {n: (MEMBERS.get(n, [])[:2] or (["true", "false"] if kinds.get(n) == "boolean" else ["20"])) + ["abc", "true"] for n in core}
    cops = [(n, v) for n in core for v in cvals[n]]
    C = [list(p) for p in itertools.product(cops, repeat=2)]
    if tier == "thorough":
        small = [(n, v) for n in core for v in cvals[n][:2] + cvals[n][-1:]]
        C += [list(p) for p in itertools.product(small, repeat=3)]
    # D: persistence across expressions and purity of queries: accepted settings followed by a series of calls
    D = [[(n, v)] for n in names for v in (MEMBERS.get(n, []) or (["true", "false"] if kinds[n] == "boolean" else ["20"] if kinds[n] == "number" else [])) ]
    D += [[("BrailleNavHighlight", s), ("BrailleCode", c)] for s in MEMBERS["BrailleNavHighlight"] for c in ("Nemeth", "UEB", "CMU")]
    # E: re-sending the CURRENT value of a preference is a no-op: an explicitly set preference p survives (q := its current value),
    #    from the initial state and after q was itself written
    explicit = [(n, v) for n in names for v in ((MEMBERS.get(n, []) or (["true", "false"] if kinds[n] == "boolean" else ["20"] if kinds[n] == "number" else []))[:2])]
    explicit += [("DecimalSeparators", ","), ("BlockSeparators", "."), ("DecimalSeparators", ";"), ("BlockSeparators", " ")]
    resend = [q for q in ("Language", "LanguageAuto", "DecimalSeparator", "SpeechStyle", "BrailleCode", "Verbosity", "TTS", "NavMode", "CheckRuleFiles", "Impairment", "Blind")
              if q in initial and initial[q] is not None]
    E = [[(n, v), (q, initial[q])] for n, v in explicit for q in resend if q != n]
    for q in resend:
        for vq in (MEMBERS.get(q, []) or ["true", "false"])[:3]:
            for n, v in [("DecimalSeparators", ","), ("BlockSeparators", "."), ("Pitch", "20"), ("Verbosity", "Terse"), ("BrailleNavHighlight", "All")]:
                if n != q:
                    E.append([(q, vq), (n, v), (q, vq)])
    # F: the writes of A made while the library is in use (after an expression, every output and navigation commands of every class),
    #    followed by more navigation: kinds and values persist, bad settings are still refused
    F = A
    for tag, hs, step in (("A", A, 300), ("B", B, 300), ("C", C, 300), ("D", D, 20), ("E", E, 300), ("F", F, 100)):
        run.count("histories_" + tag, len(hs))
        for i in range(0, len(hs), step):
            jobs.append((tag, hs[i:i + step], names, kinds, initial))
    grp = groups()
    for g in ("Speech", "Braille", "Navigation"):
        pairs = []
        for n in names:
            if grp.get(n) == g and n not in ("Language", "LanguageAuto", "DecimalSeparator", "DecimalSeparators", "BlockSeparators"):
                vs = MEMBERS.get(n) or (["true", "false"] if kinds[n] == "boolean" else ["50", "200"] if kinds[n] == "number" else None)
                if vs:
                    for a, b_ in itertools.combinations(vs[:3], 2):
                        pairs.append((n, a, b_))
        for n in ("TTS", "Pitch", "Rate", "Volume", "Bookmark", "CapitalLetters_UseWord", "CapitalLetters_Pitch", "CapitalLetters_Beep") if g == "Speech" else ():
            vs = MEMBERS.get(n) or (["true", "false"] if kinds.get(n) == "boolean" else ["50", "200"])
            pairs.append((n, vs[0], vs[1]))
        for i in range(0, len(pairs), 20):
            jobs.append(("I", g, pairs[i:i + 20]))
    states = set()
    for viol, counts, nontriv in mcx.pmap(_dispatch, jobs):
        run.merge_violations(viol)
        run.merge_counts(counts)
        for h in nontriv:
            run.nontriv(h)
            states.add(h)
    run.sample({"history": [["SpeechStyle", "true"], ["SpeechStyle", "ClearSpeak"]], "then": "get_preference(SpeechStyle) + snapshot of all preferences"})
    run.sample({"history": [["BrailleNavHighlight", "Off"], ["BrailleCode", "UEB"]], "then": [o[0] for o in disturbance()] + ["snapshot"]})
    return run.finish(
        rule=f"{len(names)} known names (prefs.yaml flattened + API/user defaults, kinds from the YAML/Rust value types) + 3 unknown names; values: generic "
             f"{GENERIC}, documented members, default and case-swapped default, malformed language tags, numeric oddities. A: every (name, value) once; "
             "B: every name with every ordered pair of values" + (" of different kinds (all pairs for enumerated preferences)" if tier == "quick" else "") +
             "; C: all pairs" + (" and triples" if tier == "thorough" else "") + " over a 12-name core; D: every accepted setting followed by 20 set_mathml/getter/navigation/routing calls; F: every (name, value) written after an expression, all outputs and 12 navigation commands (moves, reads, toggles, a place marker), followed by more navigation; "
             "independence pairs per prefs.yaml group. Each history in a fresh session, followed by a snapshot of ALL preferences compared with the model. "
             "distinct_nontrivial = distinct (history, outcome) pairs",
        coverage_extra={"states": len(states), "transitions": int(run.counters.get("evaluations", 0)), "traces_validated_against_impl": int(run.counters.get("evaluations", 0))},
        assumptions=["a string preference accepts any string (the statement says 'wrong kind'); strings that select rule files and are not documented members may be accepted or refused",
                     "Language / LanguageAuto / DecimalSeparator legitimately rewrite DecimalSeparators, BlockSeparators and LanguageAuto"],
        confirm=confirm)
