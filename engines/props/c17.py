"""C17 — equivalent XML spellings of an expression give identical results.
(A) all entity names of src/entities.in x {mo, mi, mtext, attribute value}: the named spelling must
    give the same canonical MathML / speech / braille as the numeric-reference spelling of the
    character(s) an independent table (python html.entities.html5) assigns to that name.
(B) corpus terms x surface rewrites (numeric refs hex/decimal, named entities, m:/mml: prefix,
    default namespace, inter-element white space, comments, processing instructions, xml
    declaration, MathJax class attributes, quote style), every single rewrite and every pair.
(C) unknown entity names must be an error."""
import html.entities, itertools, json, os, re
import unicodedata as ud
from xml.sax.saxutils import escape
from common import Run, norm_ids, is_ok, is_err, val, short, diffshow
import terms, mcx

HTML5 = {k[:-1]: v for k, v in html.entities.html5.items() if k.endswith(";")}
XML_PREDEF = {"amp": "&", "lt": "<", "gt": ">", "quot": '"', "apos": "'"}


def entity_table():
    """name -> string as src/entities.in has it (read at run time)."""
    out = {}
    for line in open(os.path.join(mcx.SRC, "entities.in"), encoding="utf-8"):
        m = re.match(r'\s*"([^"]+)"\s*=>\s*"(.*)",?\s*$', line)
        if not m:
            continue
        name, v = m.group(1), m.group(2)
        v = re.sub(r"\\u\{([0-9a-fA-F]+)\}", lambda k: chr(int(k.group(1), 16)), v)
        v = re.sub(r"&#x([0-9a-fA-F]+);", lambda k: chr(int(k.group(1), 16)), v)
        out[name] = v
    return out


def numref(s):
    return "".join(f"&#x{ord(c):X};" for c in s)


# ---------------------------------------------------------------------------------------------
# (B) surface printer

REV_ENT = None


def rev_ent():
    """char -> an entity name (letters only, known to both tables) for the named-entity rewrite."""
    global REV_ENT
    if REV_ENT is None:
        tab = entity_table()
        REV_ENT = {}
        for name in sorted(tab, key=lambda n: (len(n), n)):
            v = tab[name]
            if len(v) == 1 and ord(v) > 127 and name.isalpha() and HTML5.get(name) == v and v not in REV_ENT:
                REV_ENT[v] = name
    return REV_ENT


# namespace prefixes: any XML name is a legal prefix - one letter, the customary ones, upper and mixed case, with a digit / underscore / hyphen / dot
PREFIXES = {"prefix-m": "m", "prefix-mml": "mml", "prefix-M": "M", "prefix-MML": "MML", "prefix-Math": "Math", "prefix-mathML": "mathML", "prefix-ns0": "ns0",
            "prefix-m_1": "m_1", "prefix-mml-3": "mml-3", "prefix-x.y": "x.y"}
REWRITES = ["hex", "dec", "named"] + list(PREFIXES) + ["defaultns", "ws", "ws-crlf", "comment", "pi", "xmldecl", "mjx2", "mjx3", "squote",
            "tokws-lf", "tokws-crlf", "tokws-crref", "tokws-tab", "tokws-inner-crlf", "tokws-inner-ref", "tokws-inner-named", "tok-inner-comment", "tok-inner-pi",
            "tok-inner-cdata"]
# pairs that cannot be combined (two answers to the same surface question)
EXCLUSIVE = [{"hex", "dec", "named"}, set(PREFIXES) | {"defaultns"}, {"mjx2", "mjx3"}, {"ws", "ws-crlf"},
             {"tokws-lf", "tokws-crlf", "tokws-crref", "tokws-tab"},
             {"tokws-inner-crlf", "tokws-inner-ref", "tokws-inner-named", "tok-inner-comment", "tok-inner-pi", "tok-inner-cdata"}]
# a blank INSIDE token text written so that the XML parser splits the text into several nodes (character reference, comment, processing
# instruction, CDATA section) or not (named entity, substituted before parsing): the run of white space is one blank either way
INNER = {"tokws-inner-ref": " &#x9; ", "tokws-inner-named": " &Tab; ", "tok-inner-comment": " <!-- c --> ", "tok-inner-pi": " <?p q?> ", "tok-inner-cdata": " <![CDATA[ ]]> "}
# XML white space around (and, where the text already has a blank, inside) the text of a token: every spelling of it is trimmed / collapsed alike
TOKWS = {"tokws-lf": ("\n   ", "\n  "), "tokws-crlf": ("\r\n   ", "\r\n  "), "tokws-crref": ("&#xD;&#xA; ", "&#13;&#10;"), "tokws-tab": ("\t ", " \t")}


def enc_text(s, opts, attr=False):
    out = []
    for c in s:
        if c in "&<>" or (attr and c in "\"'"):
            out.append({"&": "&amp;", "<": "&lt;", ">": "&gt;", '"': "&quot;", "'": "&apos;"}[c])
        elif ord(c) > 127 and "hex" in opts:
            out.append(f"&#x{ord(c):X};")
        elif ord(c) > 127 and "dec" in opts:
            out.append(f"&#{ord(c)};")
        elif ord(c) > 127 and "named" in opts and c in rev_ent():
            out.append(f"&{rev_ent()[c]};")
        else:
            out.append(c)
    return "".join(out)


def surface(t, opts, depth=0, root=True):
    """Print term t (a terms.T rooted at <math>) in the surface form selected by opts (a set)."""
    pre = "".join(v + ":" for k, v in PREFIXES.items() if k in opts)
    q = "'" if "squote" in opts else '"'
    attrs = dict(t.attrs)
    a = ""
    if root:
        if pre:
            a += f" xmlns:{pre[:-1]}={q}http://www.w3.org/1998/Math/MathML{q}"
        if "defaultns" in opts:
            a += f" xmlns={q}http://www.w3.org/1998/Math/MathML{q}"
    if "mjx2" in opts and t.tag in ("mrow", "mi", "mo", "mfrac", "msup"):
        a += f" class={q}MJX-TeXAtom-ORD{q}"
    if "mjx3" in opts and t.tag in ("mrow", "mi", "mn", "msqrt"):
        a += f" class={q}data-mjx-texclass-ORD{q}"
    for k, v in attrs.items():
        a += f" {k}={q}{enc_text(v, opts, attr=True)}{q}"
    sep = ""
    if "ws" in opts:
        sep += "\n" + "  " * (depth + 1)
    if "ws-crlf" in opts:
        sep += "\r\n" + "\t" * (depth + 1)
    if "comment" in opts:
        sep += "<!-- note: x<y & z -->"
    if "pi" in opts:
        sep += "<?mathcat keep?>"
    head = '<?xml version="1.0" encoding="UTF-8"?>' if (root and "xmldecl" in opts) else ""
    if t.kids:
        inner = sep + sep.join(surface(k, opts, depth + 1, False) for k in t.kids) + sep
        return f"{head}<{pre}{t.tag}{a}>{inner}</{pre}{t.tag}>"
    if t.text is not None:
        body = enc_text(t.text, opts)
        if "tokws-inner-crlf" in opts and " " in t.text.strip():
            body = body.replace(" ", "\r\n ", 1)                 # a blank inside the text spelled as CR LF blank
        for k, spelled in INNER.items():
            if k in opts and " " in t.text.strip():
                lead = len(body) - len(body.lstrip(" "))
                i = body.find(" ", lead + 1) if lead or not body.startswith(" ") else -1
                i = body.strip(" ").find(" ")
                if i > 0:
                    core = body.strip(" ")
                    body = core[:i] + spelled + core[i + 1:]
        for k, (lead, trail) in TOKWS.items():
            if k in opts and t.text.strip():
                body = lead + body + trail
        return f"{head}<{pre}{t.tag}{a}>{body}</{pre}{t.tag}>"
    return f"{head}<{pre}{t.tag}{a}/>"


def opt_sets(pairs):
    out = [frozenset([r]) for r in REWRITES]
    if pairs:
        for a, b in itertools.combinations(REWRITES, 2):
            if any(a in ex and b in ex for ex in EXCLUSIVE):
                continue
            out.append(frozenset([a, b]))
    return out


EXTRA_TERMS = [
    # attribute-bearing and operator-rich terms so that quote style / entity rewrites have something to bite on
    lambda: terms.el("mfenced", terms.mi("x"), terms.mn("2"), open="⟨", close="⟩", separators="∣"),
    lambda: terms.row(terms.mi("α"), terms.mo("≤"), terms.mi("β"), terms.mo("⁢"), terms.mi("γ"), terms.mo("→"), terms.mo("∞")),
    lambda: terms.row(terms.mo("∀"), terms.mi("x"), terms.mo("∈"), terms.mi("ℝ", mathvariant="normal"), terms.mo("."), terms.mi("x"), terms.mo("≠"), terms.mn("0")),
    lambda: terms.el("mover", terms.mi("x"), terms.mo("→"), accent="true"),
    lambda: terms.row(terms.mtext("if x < y & z > 1"), terms.mo("⇒"), terms.mi("é")),
    lambda: terms.row(terms.mn("1"), terms.mo("±"), terms.el("msqrt", terms.mn("2")), terms.mo("⋅"), terms.mi("π")),
]


def corpus(depth):
    out = []
    for sh in terms.spine_shapes(depth):
        out.append((terms.shape_name(sh), terms.build(sh, terms.Filler("mixed"))))
    for i, f in enumerate(EXTRA_TERMS):
        out.append((f"extra{i}", f()))
    return out


def observe(mc, docs, braille_code="Nemeth"):
    setup = [["rules_dir", mcx.RULES], ["pref", "TTS", "none"], ["pref", "BrailleCode", braille_code]]
    cases = [[["mathml", d], ["speech"], ["braille", ""]] for d in docs]
    _, res = mc.run_cases(setup, cases)
    return [norm_ids(r) for r in res]


def same(a, b):
    """Observation triples equal?  Errors compare by kind only (messages quote the input string)."""
    for x, y in zip(a, b):
        if x[0] != y[0]:
            return False
        if x[0] == "o" and x[1] != y[1]:
            return False
    return True


def diff_part(a, b):
    names = ["canonical MathML", "speech", "braille"]
    for n, x, y in zip(names, a, b):
        if x[0] != y[0] or (x[0] == "o" and x[1] != y[1]):
            return n, x, y
    return None


# ---- workers ------------------------------------------------------------------------------------

def work_entities(chunk):
    """chunk: list of (name, table_value, html5_value_or_None)"""
    mc = mcx.worker_mc()
    viol, n, nontriv = [], 0, []
    docs, meta = [], []
    for name, tv, hv in chunk:
        ref = hv if hv is not None else tv
        # The W3C 2007 entity set (which entities.in cites) writes a combining mark with a leading
        # blank (" \u20DC"); HTML5 dropped the blank.  Both are public definitions of the name, so
        # either numeric spelling is an acceptable reference.
        alt = " " + ref if (len(ref) == 1 and ud.category(ref) in ("Mn", "Me")) else ref
        for ctx in ("mo", "mi", "mtext", "attr"):
            if ctx == "attr":
                named = f'<math><mfenced open="&{name};" close=")"><mi>x</mi></mfenced></math>'
                plain = f'<math><mfenced open="{numref(ref)}" close=")"><mi>x</mi></mfenced></math>'
                plain2 = f'<math><mfenced open="{numref(alt)}" close=")"><mi>x</mi></mfenced></math>'
            else:
                named = f"<math><mrow><mi>y</mi><mo>=</mo><{ctx}>&{name};</{ctx}></mrow></math>"
                plain = f"<math><mrow><mi>y</mi><mo>=</mo><{ctx}>{numref(ref)}</{ctx}></mrow></math>"
                plain2 = f"<math><mrow><mi>y</mi><mo>=</mo><{ctx}>{numref(alt)}</{ctx}></mrow></math>"
            docs += [named, plain, plain2]
            meta.append((name, ctx, named, plain))
    obs = observe(mc, docs)
    for i, (name, ctx, named, plain) in enumerate(meta):
        a, b, b2 = obs[3 * i], obs[3 * i + 1], obs[3 * i + 2]
        n += 1
        if is_ok(b[0]):
            nontriv.append(name)
        if not same(a, b) and not same(a, b2):
            part, x, y = diff_part(a, b)
            cls = "named-fails" if not is_ok(a[0]) and is_ok(b[0]) else "differs"
            digit = "digit-name" if re.search(r"\d", name) else "alpha-name"
            key = f"C17|entity|{name}|{cls}" if cls == "differs" else f"C17|entity|{digit}|{cls}|{name}"
            viol.append((key, f"&{name}; in <{ctx}>: {part} differs from that of the numeric spelling: {diffshow(x[1], y[1])}",
                         {"kind": "entity", "name": name, "ctx": ctx, "named": named, "plain": plain}))
    return viol, {"evaluations": n}, nontriv


def work_unknown(names):
    mc = mcx.worker_mc()
    viol, n = [], 0
    docs = []
    for name in names:
        for ctx in ("mo", "mi", "mtext"):
            docs.append((name, ctx, f"<math><{ctx}>&{name};</{ctx}></math>"))
    obs = observe(mc, [d for _, _, d in docs])
    for (name, ctx, d), o in zip(docs, obs):
        n += 1
        if not is_err(o[0]):
            viol.append((f"C17|unknown-entity|{name}|accepted", f"unknown entity &{name}; was not reported as an error: {short(o[0], 200)}",
                         {"kind": "unknown", "name": name, "doc": d}))
    return viol, {"evaluations": n}, []


def work_rewrites(item):
    """item: (list of (label, term), pairs?)"""
    chunk, pairs, code = item
    mc = mcx.worker_mc()
    sets = opt_sets(pairs)
    viol, n, nontriv = [], 0, []
    docs, meta = [], []
    for label, t in chunk:
        m = terms.math(t)
        base = surface(m, frozenset())
        docs.append(base)
        for o in sets:
            s = surface(m, o)
            docs.append(s)
        meta.append((label, base))
    obs = observe(mc, docs, code)
    k = 0
    for label, base in meta:
        b = obs[k]
        for j, o in enumerate(sets):
            a = obs[k + 1 + j]
            n += 1
            d = docs[k + 1 + j]
            if d != base:
                nontriv.append(hash((d,)))
            if not same(a, b):
                part, x, y = diff_part(a, b)
                rk = "+".join(sorted(o))
                viol.append((f"C17|rewrite|{rk}|{part.split()[0]}", f"rewrite {rk} of {label}: {part} differs from that of the plain spelling: {diffshow(x[1], y[1])}",
                             {"kind": "rewrite", "plain": base, "variant": d, "rewrite": rk, "code": code}))
        k += 1 + len(sets)
    return viol, {"evaluations": n}, nontriv


def confirm(replay, verbose=False):
    mc = mcx.Mc()
    try:
        if replay["kind"] == "entity":
            tv = entity_table().get(replay["name"], "")
            v, _, _ = _with(mc, work_entities, [(replay["name"], tv, HTML5.get(replay["name"]))])
        elif replay["kind"] == "unknown":
            v, _, _ = _with(mc, work_unknown, [replay["name"]])
        else:
            obs = observe(mc, [replay["plain"], replay["variant"]], replay.get("code", "Nemeth"))
            v = []
            if not same(obs[1], obs[0]):
                part, x, y = diff_part(obs[1], obs[0])
                v.append((f"C17|rewrite|{replay['rewrite']}|{part.split()[0]}", f"{part}: {short(x)} vs {short(y)}", replay))
    finally:
        mc.close()
    if verbose:
        for k, w, _ in v:
            print(" ", k, "—", w)
    return {k for k, _, _ in v}


def _with(mc, fn, arg):
    old = mcx._worker_mc
    mcx._worker_mc = mc
    try:
        return fn(arg)
    finally:
        mcx._worker_mc = old


UNKNOWN_NAMES = ["nosuchentity", "ALPHA", "Alfa", "xyzzy", "a", "minuss", "Int9", "frac19", "sup9"]


def main(tier):
    run = Run("C17", tier, "exploration")
    tab = entity_table()
    if len(tab) < 2000:
        print("MACHINERY-ERROR property=C17: could not read src/entities.in")
        return 2
    ents = [(n, v, XML_PREDEF.get(n, HTML5.get(n))) for n, v in sorted(tab.items())]
    run.count("entity_names", len(ents))
    run.count("entity_names_checked_against_html5", sum(1 for e in ents if e[2] is not None))
    # determinism gate
    g = [work_entities_gate(ents[:40]) for _ in range(2)]
    if g[0] != g[1]:
        print("MACHINERY-ERROR property=C17: determinism gate failed")
        return 2
    jobs = []
    for i in range(0, len(ents), 60):
        jobs.append(("ent", ents[i:i + 60]))
    jobs.append(("unk", UNKNOWN_NAMES))
    corp2 = corpus(2)
    corp1 = corpus(1)
    if tier == "quick":
        plan = [(corp1, True, "Nemeth"), (corp2, False, "Nemeth"), (corp1, False, "UEB")]
    else:
        plan = [(corp2, True, "Nemeth"), (corp2, False, "UEB"), (corp1, True, "LaTeX")]
    for corp, pairs, code in plan:
        step = 6 if pairs else 30
        for i in range(0, len(corp), step):
            jobs.append(("rw", (corp[i:i + step], pairs, code)))
    run.sample({"entity": "&minus; in <mo>", "named": "<math><mrow><mi>y</mi><mo>=</mo><mo>&minus;</mo></mrow></math>", "numeric": "…<mo>&#x2212;</mo>…"})
    run.sample({"rewrite": "prefix-m+comment", "doc": surface(terms.math(corp1[12][1]), frozenset(["prefix-m", "comment"]))})
    run.sample({"rewrite": "named+squote", "doc": surface(terms.math(EXTRA_TERMS[0]()), frozenset(["named", "squote"]))})
    for viol, counts, nontriv in mcx.pmap(_dispatch, jobs):
        run.merge_violations(viol)
        run.merge_counts(counts)
        for x in nontriv:
            run.nontriv(x)
    return run.finish(
        rule="(A) every name in src/entities.in x {mo,mi,mtext,attribute}: named vs numeric spelling (expected character from python "
             "html.entities.html5; entities.in itself only for names HTML5 lacks); (B) corpus = spine terms of G to depth 2 + 6 "
             "attribute/operator-rich terms x 13 surface rewrites, all singles and all compatible pairs; (C) unknown names. "
             "distinct_nontrivial = distinct entity names that resolve + distinct variant documents that differ from the plain spelling",
        assumptions=["python html.entities.html5 is the independent statement of what each entity name denotes",
                     "comparison is on canonical MathML with generated-id prefixes normalised, speech (TTS=none) and braille"],
        confirm=confirm)


def work_entities_gate(ents):
    mc = mcx.Mc()
    try:
        return _with(mc, work_entities, ents)
    finally:
        mc.close()


def _dispatch(job):
    kind, arg = job
    if kind == "ent":
        return work_entities(arg)
    if kind == "unk":
        return work_unknown(arg)
    return work_rewrites(arg)
