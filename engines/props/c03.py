"""C03 — row structure follows the operator dictionary.
The dictionary (src/operator-info.in) is read at run time.
(ii) Exact class: rows of heuristic-free operands and dictionary infix/prefix/postfix operators (and parentheses) whose
     assignment of dictionary forms is unique: the bracketing of the canonical MathML must equal the harness's own
     precedence-climbing parse (associativity among different operators of equal priority is not compared).
(i)  Structural invariants on every <mrow> of every output of the same runs (sibling operators of one priority class or one
     n-ary family, nested infix/postfix rows bind at least as tightly as their parent, a leading left fence that has its
     match ends the row with it, no two adjacent operands)."""
import itertools, json, os, re
from common import Run, norm_ids, is_ok, is_err, is_panic, val, short
import terms, mcx
from terms import T, mi, mn, mo, row, el

OPERANDS = ["a", "b", "k", "n", "p", "q", "2", "3", "5"]
# MathML "pseudo-script" characters, which the library turns into scripts before parsing (the list of handle_pseudo_scripts) plus accents
PSEUDO_SCRIPTS = set("\"'*`ª°²³´¹º‘’“”„‟′″‴‵‶‷⁗") | set("¨¯˙˚ˇ˘˜ˆ^_~")
AMBIGUOUS = {"|", "‖", "∣", "∥", "¦", "⦀"}
INVISIBLE = {"\u2061": "apply", "\u2062": "times", "\u2063": "comma", "\u2064": "plus"}


def dictionary():
    """op -> {'prefix'|'infix'|'postfix'|'left'|'right': priority}"""
    text = open(os.path.join(mcx.SRC, "operator-info.in"), encoding="utf-8").read()
    out = {}
    entries = []
    for line in text.split("\n"):
        m = re.match(r'\s*"((?:\\.|[^"\\])*)"\s*=>(.*)$', line)
        if m:
            entries.append([m.group(1), m.group(2)])
        elif entries and not line.lstrip().startswith("//"):
            entries[-1][1] += " " + line
    for key, body in entries:
        key = re.sub(r"\\u\{([0-9a-fA-F]+)\}", lambda k: chr(int(k.group(1), 16)), key)
        key = key.replace('\\"', '"').replace("\\\\", "\\")
        forms = {}
        for f in re.finditer(r"op_type:\s*OperatorTypes::(\w+),\s*priority:\s*(\d+)", body):
            forms[{"PREFIX": "prefix", "INFIX": "infix", "POSTFIX": "postfix", "LEFT_FENCE": "left", "RIGHT_FENCE": "right"}[f.group(1)]] = int(f.group(2))
        out[key] = forms
    return out


DICT = None


def D():
    global DICT
    if DICT is None:
        DICT = dictionary()
        if len(DICT) < 1000 or "+" not in DICT or DICT["+"].get("infix") != 280:
            raise RuntimeError("operator dictionary could not be read")
    return DICT


def nary_family(op):
    if op in ("+", "-", "−"):
        return "plusminus"
    if op in ("×", "\u2062"):
        return "times"
    return "op:" + op


# ---------------------------------------------------------------------------------------------
# reference: form assignments and precedence-climbing parse over a token list
# token: ("x", text) operand | ("o", text) operator | ("(",) | (")",)

def assignments(toks, limit=3):
    """all ways of giving each operator one of its dictionary forms such that the row is well formed"""
    d = D()
    out = []

    def rec(i, expect_operand, depth, acc):
        if len(out) >= limit:
            return
        if i == len(toks):
            if not expect_operand and depth == 0:
                out.append(list(acc))
            return
        t = toks[i]
        # the library also accepts juxtaposition (implied multiplication / function application): where an operand is not
        # expected, an operand, an opening parenthesis or a prefix operator may still follow.  Such readings count as
        # assignments too (marked "juxt"), so a row they make ambiguous is outside the exact class.
        if t[0] == "x":
            acc.append(None if expect_operand else "juxt")
            rec(i + 1, False, depth, acc)
            acc.pop()
        elif t[0] == "(":
            acc.append(None if expect_operand else "juxt")
            if i + 1 < len(toks) and toks[i + 1][0] == ")":
                acc.append(None)                 # an empty pair of fences is an operand
                rec(i + 2, False, depth, acc)
                acc.pop()
            else:
                rec(i + 1, True, depth + 1, acc)
            acc.pop()
        elif t[0] == ")":
            if not expect_operand and depth > 0:
                acc.append(None)
                rec(i + 1, False, depth - 1, acc)
                acc.pop()
        else:
            forms = d.get(t[1], {})
            if expect_operand:
                if "prefix" in forms:
                    acc.append("prefix")
                    rec(i + 1, True, depth, acc)
                    acc.pop()
            else:
                if "prefix" in forms:
                    acc.append("juxt")
                    rec(i + 1, True, depth, acc)
                    acc.pop()
                if "infix" in forms:
                    acc.append("infix")
                    rec(i + 1, True, depth, acc)
                    acc.pop()
                if "postfix" in forms:
                    acc.append("postfix")
                    rec(i + 1, False, depth, acc)
                    acc.pop()
    rec(0, True, 0, [])
    return out


def exact_class(toks):
    """-> the unique form assignment, or None if the row is outside the exact class"""
    d = D()
    if any(t[0] == "fn" for t in toks):
        return None
    for t in toks:
        if t[0] == "o" and (t[1] in PSEUDO_SCRIPTS or t[1] in AMBIGUOUS or t[1] in INVISIBLE or "left" in d.get(t[1], {}) or "right" in d.get(t[1], {}) or t[1] not in d):
            return None
    a = assignments(toks, 2)
    if len(a) != 1 or "juxt" in a[0]:
        return None
    a = a[0]
    pre = {d[t[1]]["prefix"] for t, f in zip(toks, a) if f == "prefix"}
    other = {d[t[1]][f] for t, f in zip(toks, a) if f in ("infix", "postfix")}
    if pre & other:
        return None
    return a


def ref_spans(toks, forms):
    """precedence-climbing parse -> (set of spans [i,j) of sub-rows with >= 2 leaves, list of flat equal-priority nodes
    [(span, [operand spans])])"""
    d = D()
    spans, flats = set(), []
    pos = [0]

    def prio(i):
        return d[toks[i][1]][forms[i]]

    def primary():
        i = pos[0]
        t = toks[i]
        if t[0] == "x":
            pos[0] += 1
            return (i, i + 1)
        if t[0] == "(":
            pos[0] += 1
            if toks[pos[0]][0] == ")":
                pos[0] += 1
                spans.add((i, pos[0]))
                return (i, pos[0])
            inner = parse(0)
            assert toks[pos[0]][0] == ")"
            pos[0] += 1
            spans.add((i, pos[0]))
            return (i, pos[0])
        assert forms[i] == "prefix"
        pos[0] += 1
        arg = parse(prio(i) + 1)
        spans.add((i, arg[1]))
        return (i, arg[1])

    def parse(minp):
        left = primary()
        while pos[0] < len(toks):
            i = pos[0]
            t = toks[i]
            if t[0] != "o":
                break
            f = forms[i]
            if f == "postfix":
                if prio(i) < minp:
                    break
                pos[0] += 1
                left = (left[0], i + 1)
                spans.add(left)
                continue
            if f != "infix" or prio(i) < minp:
                break
            p = prio(i)
            operands = [left]
            # the maximal run of infix operators of this priority forms one flat node for the comparison
            while pos[0] < len(toks) and toks[pos[0]][0] == "o" and forms[pos[0]] == "infix" and prio(pos[0]) == p:
                pos[0] += 1
                operands.append(parse(p + 1))
            left = (operands[0][0], operands[-1][1])
            spans.add(left)
            flats.append((left, operands))
        return left
    whole = parse(0)
    assert pos[0] == len(toks), "reference parser did not consume the row"
    spans = {s for s in spans if s[1] - s[0] >= 2}
    return spans, flats, whole


# ---------------------------------------------------------------------------------------------
# reading the library's bracketing

def lib_spans(canon, ntoks):
    """-> (set of mrow spans over leaf indices, leaf texts, per-mrow child summaries) or None if the leaves do not correspond"""
    t = terms.parse_xml(canon)
    leaves = []
    rows = []

    def walk(n):
        if n.tag in ("mi", "mn", "mo", "mtext"):
            if n.tag == "mo" and n.attrs.get("data-changed") == "added" and (n.text or "") in INVISIBLE:
                return None              # an inserted invisible operator is not an input token
            leaves.append(n)
            return (len(leaves) - 1, len(leaves))
        lo = hi = None
        kids = []
        for k in n.kids:
            s = walk(k)
            if s is not None:
                lo = s[0] if lo is None else lo
                hi = s[1]
            kids.append((k, s))
        if n.tag == "mrow" and lo is not None:
            rows.append((n, (lo, hi), kids))
        return None if lo is None else (lo, hi)
    walk(t)
    if ntoks is not None and len(leaves) != ntoks:
        return None
    return {s for _, s, _ in rows if s[1] - s[0] >= 2}, leaves, rows, t


def compare(toks, forms, canon):
    """-> list of (class, detail)"""
    ls = lib_spans(canon, len(toks))
    if ls is None:
        return [("__tokens_changed__", "")]
    spans, leaves, rows, tree = ls
    for t, leaf in zip(toks, leaves):
        if t[0] == "o" and (leaf.text or "") != t[1] and not (t[1] == "-" and leaf.text in ("-", "−")):
            return [("__tokens_changed__", "")]      # the operator itself was rewritten (e.g. '~' to U+223C): a different dictionary entry
    want, flats, whole = ref_spans(toks, forms)
    # sub-bracketing inside a chain of equal-priority operators is not dictated by the dictionary: drop such spans
    def inside_flat(s):
        for (fs, operands) in flats:
            if fs[0] <= s[0] and s[1] <= fs[1] and s != fs:
                starts = {o[0] for o in operands}
                ends = {o[1] for o in operands}
                covered = [o for o in operands if s[0] <= o[0] and o[1] <= s[1]]
                if s[0] in starts and s[1] in ends and len(covered) >= 2:
                    return True         # a grouping of two or more neighbouring operands of the chain
        return False
    got = {s for s in spans if not inside_flat(s)}
    want = {s for s in want if s[1] - s[0] < len(toks)} | ({(0, len(toks))} if (0, len(toks)) in got else set())
    got_cmp = {s for s in got}
    missing = sorted(want - got_cmp)
    extra = sorted(got_cmp - want - {(0, len(toks))})
    out = []
    if missing or extra:
        out.append(("bracketing", f"rows expected {sorted(want)} got {sorted(got_cmp)} (missing {missing}, extra {extra})"))
    return out


def invariants(canon):
    """structural invariants on every mrow of an output -> list of (class, detail)"""
    d = D()
    out = []
    t = terms.parse_xml(canon)

    def is_op(n):
        return n.tag == "mo"

    def principal(n):
        """(form, priority, op text) of the principal operator of an mrow, by position"""
        if n.tag != "mrow" or not n.kids:
            return None
        ks = n.kids
        first, last = ks[0], ks[-1]
        txt = lambda k: (k.text or "")
        if is_op(first) and "left" in d.get(txt(first), {}) and is_op(last) and "right" in d.get(txt(last), {}):
            return ("fenced", 0, txt(first))
        if is_op(first) and not (len(ks) > 1 and is_op(ks[1])) and "prefix" in d.get(txt(first), {}):
            return ("prefix", d[txt(first)]["prefix"], txt(first))
        inf = [k for k in ks[1:-1] if is_op(k)]
        if inf:
            ps = [d.get(txt(k), {}).get("infix") for k in inf]
            ps = [p for p in ps if p is not None]
            if ps:
                return ("infix", min(ps), txt(inf[0]))
        if is_op(last) and "postfix" in d.get(txt(last), {}) and len(ks) >= 2:
            return ("postfix", d[txt(last)]["postfix"], txt(last))
        return None

    PAIRS = {"(": ")", "[": "]", "{": "}"}
    CLOSERS = set(PAIRS.values())
    allmo = [(k.text or "") for _, k in t.walk() if k.tag == "mo"]
    balanced = True
    for o_, c_ in PAIRS.items():
        depth_ = 0
        for x in allmo:
            if x == o_:
                depth_ += 1
            elif x == c_:
                depth_ -= 1
                if depth_ < 0:
                    balanced = False
        if depth_ != 0:
            balanced = False
    for _, n in t.walk():
        if n.tag != "mrow" or len(n.kids) < 2:
            continue
        ks = n.kids
        txt = lambda k: (k.text or "")
        # adjacent operands
        def emb(k):      # an embellished operator (script or limit element around an operator) is an operator, not an operand
            while k.tag in ("msub", "msup", "msubsup", "munder", "mover", "munderover", "mmultiscripts") and k.kids:
                k = k.kids[0]
            return k.tag == "mo"
        for a, b_ in zip(ks, ks[1:]):
            if not emb(a) and not emb(b_):
                out.append(("adjacent-operands", f"<{a.tag}> directly followed by <{b_.tag}> in one row"))
                break
        # sibling infix operators: one priority class or one n-ary family
        inf = [k for k in ks[1:-1] if is_op(k) and "infix" in d.get(txt(k), {}) and not ("left" in d[txt(k)] or "right" in d[txt(k)])]
        if len(inf) >= 2 and all(not is_op(k) for k in ks[0::2]) and all(is_op(k) for k in ks[1::2]):
            ps = {d[txt(k)]["infix"] for k in inf}
            fams = {nary_family(txt(k)) for k in inf}
            if len(ps) > 1 and len(fams) > 1:
                out.append(("mixed-priorities-in-row", f"operators {[txt(k) for k in inf]} with priorities {sorted(ps)} are siblings in one row"))
        # leading left fence whose match occurs in the row: the row ends with the match
        first = ks[0]
        if is_op(first) and txt(first) in ("(", "[", "{") and len(ks) >= 3:
            match = {"(": ")", "[": "]", "{": "}"}[txt(first)]
            idx = [i for i, k in enumerate(ks) if is_op(k) and txt(k) == match]
            if idx and idx[-1] != len(ks) - 1 and not any(is_op(k) and txt(k) == txt(first) for k in ks[1:]):
                out.append(("fence-not-closing-row", f"a row starts with {txt(first)} and contains {match} but goes on after it"))
        # a matched pair of fences encloses exactly its contents: when the fences of the whole expression are balanced, no row starts
        # with a closing fence, and the direct children of a row are balanced too (a pair is never split between a row and a sub-row)
        if balanced:
            if is_op(first) and txt(first) in CLOSERS:
                out.append(("row-starts-with-closing-fence", f"a row starts with {txt(first)!r}"))
            for o_, c_ in PAIRS.items():
                no = sum(1 for k in ks if is_op(k) and txt(k) == o_)
                nc = sum(1 for k in ks if is_op(k) and txt(k) == c_)
                if no != nc:
                    out.append(("fence-pair-split", f"a row has {no} {o_!r} and {nc} {c_!r} among its direct children"))
                    break
        # nested infix/postfix rows bind at least as tightly as the containing row's operator
        me = principal(n)
        alt = lambda r: len(r.kids) >= 3 and len(r.kids) % 2 == 1 and all(not is_op(x) for x in r.kids[0::2]) and all(is_op(x) for x in r.kids[1::2])
        if me and me[0] == "infix" and alt(n) and me[2] not in INVISIBLE:
            for k in ks:
                pk = principal(k)
                if pk and not (alt(k) if pk[0] == "infix" else (len(k.kids) == 2 and not is_op(k.kids[0]))):
                    continue      # only well-formed operand/operator alternations are judged (degenerate rows have no defined principal operator)
                if pk and pk[0] == "postfix" and k is ks[0]:
                    continue      # 'a ! % b': the token order forces (a !) to be the left operand whatever the priorities; no bracketing satisfies the relation
                if pk and pk[0] in ("infix", "postfix") and pk[1] < me[1]:
                    out.append(("loose-child-row", f"a row with principal {pk[0]} operator {pk[2]!r} (priority {pk[1]}) is an operand of {me[2]!r} (priority {me[1]})"))
                    break
    return out


# ---------------------------------------------------------------------------------------------
# rows

def render(toks):
    kids = []
    for t in toks:
        if t[0] in ("x", "fn"):
            kids.append(mn(t[1]) if t[1].isdigit() else mi(t[1]))
        elif t[0] == "o":
            kids.append(mo(t[1]))
        else:
            kids.append(mo(t[1] if len(t) > 1 else t[0]))
    return kids


EMBED = {
    "top": lambda k: row(*k),
    "numerator": lambda k: el("mfrac", row(*k), mi("z")),
    "radicand": lambda k: el("msqrt", *k),
    "superscript": lambda k: el("msup", mi("z"), row(*k)),
    "cell": lambda k: el("mtable", el("mtr", el("mtd", *k), el("mtd", mi("z")))),
    "fenced-arg": lambda k: row(mi("f"), mo("("), row(*k), mo(")")),
    "under": lambda k: el("munder", mo("∑"), row(*k)),
}


def class_reps():
    """one representative operator per (form set with priorities) class"""
    d = D()
    reps = {}
    for op, forms in sorted(d.items(), key=lambda x: (len(x[0]), x[0])):
        if "left" in forms or "right" in forms or op in PSEUDO_SCRIPTS or op in AMBIGUOUS or op in INVISIBLE:
            continue
        key = tuple(sorted(forms.items()))
        reps.setdefault(key, op)
    return list(reps.values())


def rows_for(tier):
    d = D()
    X = lambda s: ("x", s)
    O = lambda s: ("o", s)
    reps = class_reps()
    FN0 = lambda s_: ("fn", s_)
    infix_all = [op for op, f in d.items() if "infix" in f and "left" not in f and "right" not in f and op not in PSEUDO_SCRIPTS and op not in AMBIGUOUS]
    prefix_all = [op for op, f in d.items() if "prefix" in f and "left" not in f]
    postfix_all = [op for op, f in d.items() if "postfix" in f and "right" not in f and op not in PSEUDO_SCRIPTS]
    inf_reps = [o for o in reps if "infix" in d[o]]
    pre_reps = [o for o in reps if "prefix" in d[o]]
    post_reps = [o for o in reps if "postfix" in d[o]]
    rows = []
    # (a) pairs: every infix operator against every class representative, both orders
    for o1 in (infix_all if tier == "thorough" else infix_all[::4]):
        for o2 in inf_reps:
            rows.append(("pair", [X("a"), O(o1), X("b"), O(o2), X("k")]))
            if tier == "thorough":
                rows.append(("pair", [X("a"), O(o2), X("b"), O(o1), X("k")]))
    # EVERY infix operator against its neighbours in the priority order (the class representatives just below, at, and just above its
    # priority), and next to a prefix minus, a postfix factorial and a function application: a wrong priority of a single operator shows here
    by_prio = sorted(inf_reps, key=lambda o: d[o]["infix"])
    prios = [d[o]["infix"] for o in by_prio]
    import bisect
    for o1 in infix_all:
        p1 = d[o1]["infix"]
        i = bisect.bisect_left(prios, p1)
        neigh = {by_prio[j] for j in (i - 2, i - 1, i, i + 1, i + 2) if 0 <= j < len(by_prio)}
        for o2 in sorted(neigh):
            rows.append(("neighbour", [X("a"), O(o1), X("b"), O(o2), X("k")]))
            rows.append(("neighbour", [X("a"), O(o2), X("b"), O(o1), X("k")]))
        rows.append(("neighbour", [O("-"), X("a"), O(o1), X("b")]))
        rows.append(("neighbour", [X("a"), O(o1), X("b"), O("!")]))
        rows.append(("neighbour", [X("a"), O(o1), O("-"), X("b")]))
        rows.append(("funcapp", [FN0("f"), ("(",), X("b"), (")",), O(o1), X("2")]))
        rows.append(("funcapp", [X("a"), O(o1), FN0("f"), ("(",), X("b"), (")",)]))
    for o1 in inf_reps:
        for o2 in inf_reps:
            rows.append(("pair", [X("a"), O(o1), X("b"), O(o2), X("k")]))
    # every operator in every form it has
    for o in prefix_all:
        rows.append(("prefix", [O(o), X("a")]))
        for o2 in inf_reps[::3]:
            rows.append(("prefix-infix", [O(o), X("a"), O(o2), X("b")]))
            rows.append(("infix-prefix", [X("a"), O(o2), O(o), X("b")]))
    for o in postfix_all:
        rows.append(("postfix", [X("a"), O(o)]))
        for o2 in inf_reps[::3]:
            rows.append(("postfix-infix", [X("a"), O(o), O(o2), X("b")]))
            rows.append(("infix-postfix", [X("a"), O(o2), X("b"), O(o)]))
    # (b) triples over class representatives
    tri = inf_reps if tier == "thorough" else inf_reps[::3]
    for o1, o2, o3 in itertools.product(tri, repeat=3):
        rows.append(("triple", [X("a"), O(o1), X("b"), O(o2), X("k"), O(o3), X("n")]))
    for p in pre_reps:
        for q in post_reps:
            for o in inf_reps[::4]:
                rows.append(("pre-post", [O(p), X("a"), O(q), O(o), X("b")]))
                rows.append(("pre-post", [X("a"), O(o), O(p), X("b"), O(q)]))
    # (c) all rows up to a length over a 12-symbol core (incl. unbalanced fences and juxtaposition: invariants only unless unique)
    core = [X("a"), X("2"), O("+"), O("−"), O("×"), O("="), O(","), O("!"), ("(",), (")",), O("-"), X("k")]
    maxlen = 5 if tier == "quick" else 6
    for n in range(1, maxlen + 1):
        for seq in itertools.product(core, repeat=n):
            rows.append(("core", list(seq)))
    # function application next to every class of infix operator (and to every operator that binds tighter than application): invariants only
    # ("fn" operands are function-like names, so these rows are not in the heuristic-free exact class)
    FN = lambda s: ("fn", s)
    tight = [op for op in infix_all if d[op]["infix"] >= 800]
    for o in sorted(set(inf_reps + tight)):
        for g in ("g", "f", "sin"):
            rows.append(("funcapp", [X("a"), O(o), FN(g), ("(",), X("b"), O(","), X("k"), (")",)]))
            rows.append(("funcapp", [FN(g), ("(",), X("b"), O(","), X("k"), (")",), O(o), X("a")]))
            rows.append(("funcapp", [X("a"), O(o), FN(g), ("(",), X("b"), O("+"), X("2"), (")",)]))
            rows.append(("funcapp", [X("a"), O(o), FN(g), ("(",), X("b"), (")",), O(o), X("k")]))
            rows.append(("funcapp", [X("a"), O(o), FN(g), X("b")]))
            rows.append(("funcapp", [X("2"), X("a"), O(o), X("3"), X("b"), X("k")]))
    # empty pairs of fences as operands, in every position, for every kind of fence and class of infix operator
    for (fo, fc) in (("(", ")"), ("[", "]"), ("{", "}")):
        L, R = ("(", fo), (")", fc)
        for o in inf_reps[::2]:
            rows.append(("empty-fence", [L, R, O(o), X("a")]))
            rows.append(("empty-fence", [X("a"), O(o), L, R]))
            rows.append(("empty-fence", [X("a"), O(o), L, R, O(o), X("b")]))
            rows.append(("empty-fence", [L, R, O(o), X("a"), O("+"), X("b"), X("k")]))
            rows.append(("empty-fence", [L, L, R, R, O(o), X("a")]))
            rows.append(("empty-fence", [L, L, R, O(o), X("a"), R, O(o), X("b")]))
            rows.append(("empty-fence", [FN("f"), L, R, O(o), X("2")]))
            rows.append(("empty-fence", [X("a"), O(o), FN("f"), L, R, O(o), X("2")]))
        for p in pre_reps[::2]:
            rows.append(("empty-fence", [O(p), L, R, O("+"), X("a")]))
        for q in post_reps[::2]:
            rows.append(("empty-fence", [L, R, O(q), O("+"), X("a")]))
    # a prefix operator directly in front of an opening fence (the form of the operator has to be decided by looking past the fence)
    for (fo, fc) in (("(", ")"), ("[", "]")):
        L, R = ("(", fo), (")", fc)
        for p in pre_reps:
            for o in inf_reps[::3]:
                rows.append(("prefix-fence", [O(p), L, X("b"), O("="), X("k"), R, O(o), X("a")]))
                rows.append(("prefix-fence", [X("a"), O(o), O(p), L, X("b"), O("="), X("k"), R]))
                rows.append(("prefix-fence", [O(p), L, X("b"), R, O(o), X("a")]))
                rows.append(("prefix-fence", [O(p), L, L, X("b"), R, R, O(o), X("a")]))
    # parentheses with class representatives
    for o1, o2 in itertools.product(inf_reps[::2], repeat=2):
        rows.append(("paren", [X("a"), O(o1), ("(",), X("b"), O(o2), X("k"), (")",)]))
        rows.append(("paren", [("(",), X("a"), O(o1), X("b"), (")",), O(o2), X("k")]))
    return rows


def work(item):
    where, rows = item
    mc = mcx.worker_mc()
    setup = [["rules_dir", mcx.RULES]]
    docs = [terms.doc(EMBED[where](render(toks))) for _, toks in rows]
    _, res = mc.run_cases(setup, [[["mathml", d]] for d in docs])
    viol, counts, nontriv = [], {"evaluations": 0, "exact_class": 0, "invariants_checked": 0, "skipped_panics": 0, "rejected": 0, "tokens_changed": 0}, []
    for (family, toks), d, r in zip(rows, docs, res):
        counts["evaluations"] += 1
        r = r[0]
        if is_panic(r):
            counts["skipped_panics"] += 1
            continue
        if not is_ok(r):
            counts["rejected"] += 1
            continue
        canon = val(r)
        replay = {"where": where, "family": family, "toks": [list(t) for t in toks]}
        sig = " ".join(t[1] if len(t) > 1 else t[0] for t in toks)
        counts["invariants_checked"] += 1
        for k, w in invariants(canon):
            viol.append((f"C03|invariant|{k}|{shape(toks)}", f"[{where}] row {sig!r}: {w}", replay))
        forms = exact_class(toks)
        if forms is not None and where in ("top", "radicand", "numerator", "superscript", "cell", "fenced-arg", "under"):
            # locate the row inside the embedding: compare on the sub-tree that holds exactly the row's tokens
            sub = extract_row(canon, where, len(toks))
            if sub is None:
                counts["tokens_changed"] += 1
                continue
            c = compare(toks, forms, sub)
            if c and c[0][0] == "__tokens_changed__":
                counts["tokens_changed"] += 1
                continue
            counts["exact_class"] += 1
            nontriv.append(hash((where, sig)))
            for k, w in c:
                viol.append((f"C03|{k}|{shape_forms(toks, forms)}", f"[{where}] row {sig!r} (forms {[f for f in forms if f]}): {w}", replay))
    return viol, counts, nontriv


# ---------------------------------------------------------------------------------------------
# every pair of fences of the dictionary behaves like a pair of parentheses

def fence_pairs():
    """(open, close) for every dictionary character with a left-fence form: the close is the next code point if that has a right-fence
    form (brackets are encoded in adjacent pairs), the character itself if it has both forms (and is not one of the ambiguous bars)"""
    d = D()
    out = []
    for op, forms in sorted(d.items()):
        if len(op) != 1 or "left" not in forms or op in "([{" or op in AMBIGUOUS or op in PSEUDO_SCRIPTS:
            continue
        nxt = chr(ord(op) + 1)
        if "right" in d.get(nxt, {}) and nxt not in PSEUDO_SCRIPTS and nxt not in AMBIGUOUS:
            out.append((op, nxt))
        elif "right" in forms and op not in AMBIGUOUS:
            out.append((op, op))
    return out


FENCE_TEMPLATES = [
    ("group-infix", lambda L, R: [L, ("x", "a"), R, ("o", "+"), ("x", "b")]),
    ("infix-group", lambda L, R: [("x", "a"), ("o", "+"), L, ("x", "b"), R]),
    ("group-postfix", lambda L, R: [L, ("x", "a"), ("o", "+"), ("x", "b"), R, ("o", "!")]),
    ("unary-inside", lambda L, R: [L, ("o", "-"), ("x", "a"), R, ("o", "="), ("x", "b")]),
    ("nested", lambda L, R: [L, L, ("x", "a"), R, ("o", "+"), ("x", "b"), R, ("o", "×"), ("x", "k")]),
    ("two-groups", lambda L, R: [L, ("x", "a"), R, ("o", "+"), L, ("x", "b"), R]),
    ("juxtaposed", lambda L, R: [("x", "2"), L, ("x", "a"), ("o", "+"), ("x", "b"), R]),
]


def work_fences(item):
    """differential: the row with the pair (L, R) must be bracketed exactly like the same row with parentheses"""
    where, pairs = item
    mc = mcx.worker_mc()
    setup = [["rules_dir", mcx.RULES]]
    P = (("(", "("), (")", ")"))
    rows = []
    for L, R in [("(", ")")] + pairs:
        for tn, f in FENCE_TEMPLATES:
            rows.append((L, R, tn, f(("(", L), (")", R))))
    docs = [terms.doc(EMBED[where](render(toks))) for _, _, _, toks in rows]
    _, res = mc.run_cases(setup, [[["mathml", d]] for d in docs])
    ref = {}
    viol, counts, nontriv = [], {"evaluations": 0, "fence_rows": 0, "skipped_panics": 0, "rejected": 0}, []
    for (L, R, tn, toks), r in zip(rows, res):
        r = r[0]
        counts["evaluations"] += 1
        if is_panic(r):
            counts["skipped_panics"] += 1
            continue
        if not is_ok(r):
            counts["rejected"] += 1
            if L != "(":
                viol.append((f"C03|fence-pair|rejected|{tn}|U+{ord(L):04X}", f"[{where}] {tn} with {L} {R}: set_mathml refused the row although the same row with parentheses is accepted",
                             {"where": where, "family": "fence-pair", "pair": [L, R], "template": tn}))
            continue
        ls = lib_spans(val(r), len(toks))
        spans = None if ls is None else frozenset(ls[0])
        if L == "(":
            ref[tn] = spans
            continue
        counts["fence_rows"] += 1
        nontriv.append(hash((where, L, tn)))
        if ref.get(tn) is not None and spans != ref[tn]:
            viol.append((f"C03|fence-pair|bracketing|{tn}|U+{ord(L):04X}", f"[{where}] {tn} with the fences {L} {R} is bracketed {sorted(spans) if spans is not None else 'with changed tokens'}, "
                         f"with parentheses {sorted(ref[tn])}", {"where": where, "family": "fence-pair", "pair": [L, R], "template": tn}))
    return viol, counts, nontriv


# ---------------------------------------------------------------------------------------------
# fences that carry scripts: '( a + b )' with the closing (or opening) fence as the base of a script element, the way generators write
# '(a+b)^2'; the pair still encloses exactly its contents, so the structural invariants (no pair split between a row and a sub-row, no
# row starting with a closing fence, ...) hold on the canonical form whatever script element carries the fence

SCRIPTED = {
    "msub": lambda b: el("msub", b, mi("n")),
    "msup": lambda b: el("msup", b, mn("2")),
    "msubsup": lambda b: el("msubsup", b, mi("n"), mn("2")),
    "msup-row": lambda b: el("msup", b, row(mi("n"), mo("+"), mn("1"))),
    "msubsup-prime": lambda b: el("msubsup", b, mn("0"), mo("′")),
    "mmultiscripts": lambda b: el("mmultiscripts", b, mi("n"), mn("2")),
}
SCRIPT_PAIRS = [("(", ")"), ("[", "]"), ("{", "}")]


def scripted_rows():
    out = []
    for L, R in SCRIPT_PAIRS:
        for tn, f in FENCE_TEMPLATES:
            toks = f(("(", L), (")", R))
            closers = [i for i, t in enumerate(toks) if t[0] == ")"]
            for i in closers:
                for sn in SCRIPTED:
                    out.append((L, R, tn, i, sn))
    return out


def work_scripted(item):
    where, rows = item
    mc = mcx.worker_mc()
    setup = [["rules_dir", mcx.RULES]]
    docs = []
    for L, R, tn, i, sn in rows:
        toks = dict(FENCE_TEMPLATES)[tn](("(", L), (")", R))
        kids = render(toks)
        kids[i] = SCRIPTED[sn](kids[i])
        docs.append(terms.doc(EMBED[where](kids)))
    _, res = mc.run_cases(setup, [[["mathml", d]] for d in docs])
    viol, counts, nontriv = [], {"evaluations": 0, "scripted_fence_rows": 0, "skipped_panics": 0, "rejected": 0}, []
    for (L, R, tn, i, sn), r in zip(rows, res):
        r = r[0]
        counts["evaluations"] += 1
        replay = {"where": where, "family": "scripted-fence", "row": [L, R, tn, i, sn]}
        if is_panic(r):
            counts["skipped_panics"] += 1
            continue
        if not is_ok(r):
            counts["rejected"] += 1
            viol.append((f"C03|scripted-fence|rejected|{tn}|{sn}", f"[{where}] {tn} with {L} {R}, closing fence #{i} in <{sn}>: set_mathml refused the row", replay))
            continue
        counts["scripted_fence_rows"] += 1
        nontriv.append(hash((where, L, tn, i, sn)))
        for k, w in invariants(val(r)):
            viol.append((f"C03|scripted-fence|{k}|{tn}|{sn}", f"[{where}] {tn} with {L} {R}, closing fence (token {i}) as the base of <{sn}>: {w}", replay))
    return viol, counts, nontriv


# ---------------------------------------------------------------------------------------------
# identifiers that look like chemical element symbols are ordinary identifiers unless the expression is taken for chemistry

ELEMENT_OPERANDS = [("P", "N", "S", "K"), ("C", "N", "1", "O"), ("K", "I", "3", "U"), ("C", "O", "2", "H"), ("H", "O", "H", "O"), ("N", "a", "O", "b"),
                    ("B", "C", "N", "F"), ("V", "W", "Y", "I"), ("Na", "Cl", "K", "Br"), ("c", "n", "o", "s")]
NEUTRAL_OPERANDS = ("a", "b", "k", "n")
BOND_LIKE = ["-", "=", ":", "\u22c5", "\u2261", "+", "\u00d7", "/", "\u2212", "<", ","]
LETTER_EMBED = {
    "top": lambda k: row(*k),
    "radicand+x": lambda k: row(el("msqrt", *k), mo("+"), mi("x")),
    "radicand": lambda k: el("msqrt", *k),
    "numerator": lambda k: el("mfrac", row(*k), mi("x")),
    "eq-radicand": lambda k: row(mi("y"), mo("="), el("msqrt", *k)),
    "superscript": lambda k: el("msup", mi("z"), row(*k)),
    "cell": lambda k: el("mtable", el("mtr", el("mtd", *k), el("mtd", mi("z")))),
    "paren": lambda k: row(mi("x"), mo("+"), mo("("), row(*k), mo(")")),
}


def letter_rows(tier):
    """(operand tuple index, operator tuple): x op x op x for every ordered pair of the bond-like operators, x op x op x op x for every
    triple over the five operators the chemistry pass treats as bonds"""
    import itertools
    out = []
    for oi in range(len(ELEMENT_OPERANDS)):
        for ops in itertools.product(BOND_LIKE, repeat=2):
            out.append((oi, ops))
        for ops in itertools.product(BOND_LIKE[:5] if tier == "quick" else BOND_LIKE[:8], repeat=3):
            out.append((oi, ops))
    return out


def work_letters(item):
    """differential: unless the library marks the result as chemistry, the row must be bracketed exactly like the same row over a b k n"""
    where, rows = item
    mc = mcx.worker_mc()
    setup = [["rules_dir", mcx.RULES]]

    def toks_of(operands, ops):
        t = []
        for i, op in enumerate(ops):
            t += [("x", operands[i]), ("o", op)]
        return t + [("x", operands[len(ops)])]
    docs = []
    for oi, ops in rows:
        docs.append(terms.doc(LETTER_EMBED[where](render(toks_of(ELEMENT_OPERANDS[oi], ops)))))
        docs.append(terms.doc(LETTER_EMBED[where](render(toks_of(NEUTRAL_OPERANDS, ops)))))
    _, res = mc.run_cases(setup, [[["mathml", d]] for d in docs])
    viol, counts, nontriv = [], {"evaluations": 0, "letter_rows_compared": 0, "letter_rows_taken_for_chemistry": 0, "skipped_panics": 0, "rejected": 0}, []
    for j, (oi, ops) in enumerate(rows):
        re_, rn = res[2 * j][0], res[2 * j + 1][0]
        counts["evaluations"] += 2
        if is_panic(re_) or is_panic(rn):
            counts["skipped_panics"] += 1
            continue
        if not is_ok(re_) or not is_ok(rn):
            counts["rejected"] += 1
            continue
        ce, cn = val(re_), val(rn)
        if any(a in ce for a in ("data-chem-formula=", "data-chem-equation=", "data-maybe-chemistry=", "data-chemical-bond=")):     # marks the library leaves on what it reads as chemistry
            counts["letter_rows_taken_for_chemistry"] += 1
            continue
        se, sn_ = lib_spans(ce, None), lib_spans(cn, None)
        counts["letter_rows_compared"] += 1
        nontriv.append(hash((where, oi, ops)))
        sig = " ".join(t[1] for t in toks_of(ELEMENT_OPERANDS[oi], ops))
        replay = {"where": where, "family": "element-letters", "row": [oi, list(ops)]}
        kinds = "".join("U" if x[:1].isupper() and len(x) == 1 else "u" if x[:1].isupper() else "d" if x.isdigit() else "l" for x in ELEMENT_OPERANDS[oi][:len(ops) + 1])
        if len(se[1]) != len(sn_[1]):
            viol.append((f"C03|element-letters|tokens-differ|{where}|{kinds}", f"[{where}] row {sig!r}: {len(se[1])} tokens, the same row over a b k n has {len(sn_[1])}", replay))
        elif se[0] != sn_[0]:
            opsig = " ".join(ops)
            viol.append((f"C03|element-letters|bracketing|{where}|{opsig}|{kinds}", f"[{where}] row {sig!r} is not taken for chemistry but is bracketed {sorted(se[0])}, the same row over a b k n {sorted(sn_[0])}", replay))
    return viol, counts, nontriv


def _dispatch(job):
    if job[0] == "LETTERS":
        return work_letters(job[1:])
    if job[0] == "SCRIPTED":
        return work_scripted(job[1:])
    return work_fences(job[1:]) if job[0] == "FENCES" else work(job)


def shape(toks):
    """token-kind signature with operators replaced by their dictionary form sets"""
    d = D()
    out = []
    for t in toks:
        if t[0] in ("x", "fn"):
            out.append(t[0])
        elif t[0] == "o":
            f = d.get(t[1], {})
            out.append("".join(sorted(k[0] + k[1] for k in f)) or "?")
        else:
            out.append(t[0])
    return " ".join(out)[:70]


def shape_forms(toks, forms):
    """operand/operator-form signature with a relative priority order (which operator binds tighter), e.g. 'x in1 x in0 x'"""
    d = D()
    ps = sorted({d[t[1]][f] for t, f in zip(toks, forms) if f})
    out = []
    chain = any(a == "prefix" and b_ == "prefix" for a, b_ in zip(forms, forms[1:]))
    for t, f in zip(toks, forms):
        if t[0] == "x":
            out.append("x")
        elif t[0] == "o":
            if chain:
                # rows with two or more consecutive prefix operators form one class (the one-token look-ahead of the form resolution)
                if f == "prefix" and out and out[-1] == "pr+":
                    continue
                out.append("pr+" if f == "prefix" else f[:2])
            else:
                out.append(f"{f[:2]}{ps.index(d[t[1]][f])}")
        else:
            out.append(t[0])
    sig = " ".join(out)
    return re.sub(r"pr\+( x)?", "pr+", sig) if chain else sig


def extract_row(canon, where, ntoks):
    """the part of the canonical MathML that holds the row's tokens (the row itself at top level; inside the 2-D position otherwise), re-serialised"""
    t = terms.parse_xml(canon)
    node = t.kids[0] if t.kids else None
    if node is None:
        return None
    if where == "numerator":
        node = node.kids[0] if node.tag == "mfrac" and node.kids else None
    elif where == "radicand":
        node = node.kids[0] if node.tag == "msqrt" and node.kids else None
    elif where == "superscript":
        node = node.kids[1] if node.tag == "msup" and len(node.kids) == 2 else None
    elif where == "cell":
        try:
            node = node.kids[0].kids[0].kids[0] if node.tag == "mtable" else None
        except IndexError:
            node = None
    elif where == "fenced-arg":
        # f ⁡ ( row )
        try:
            paren = node.kids[-1]
            node = paren.kids[1] if paren.tag == "mrow" and len(paren.kids) == 3 else None
        except IndexError:
            node = None
    elif where == "under":
        node = node.kids[1] if node.tag == "munder" and len(node.kids) == 2 else None
    if node is None:
        return None
    return "<math>" + node.xml() + "</math>"


def confirm(replay, verbose=False):
    mc = mcx.Mc()
    old = mcx._worker_mc
    mcx._worker_mc = mc
    try:
        if replay.get("family") == "element-letters":
            v, _, _ = work_letters((replay["where"], [(replay["row"][0], tuple(replay["row"][1]))]))
        elif replay.get("family") == "scripted-fence":
            v, _, _ = work_scripted((replay["where"], [tuple(replay["row"])]))
        elif replay.get("family") == "fence-pair":
            v, _, _ = work_fences((replay["where"], [tuple(replay["pair"])]))
            v = [x for x in v if x[2]["template"] == replay["template"]]
        else:
            v, _, _ = work((replay["where"], [(replay["family"], [tuple(t) for t in replay["toks"]])]))
    finally:
        mcx._worker_mc = old
        mc.close()
    if verbose:
        for k, w, _ in v:
            print(" ", k, "—", w)
    return {k for k, _, _ in v}


def main(tier):
    run = Run("C03", tier, "exploration")
    d = D()
    run.count("dictionary_operators", len(d))
    rows = rows_for(tier)
    run.count("rows", len(rows))
    jobs = []
    for i in range(0, len(rows), 2000):
        jobs.append(("top", rows[i:i + 2000]))
    # (d) re-embedding in 2-D positions
    emb = [r for r in rows if r[0] in ("pair", "triple", "paren", "prefix-infix", "infix-postfix", "funcapp")]
    emb = emb[::(12 if tier == "quick" else 3)]
    for where in EMBED:
        if where == "top":
            continue
        for i in range(0, len(emb), 2000):
            jobs.append((where, emb[i:i + 2000]))
    outs = []
    for _ in range(2):
        mcx._worker_mc = mcx.Mc()
        outs.append(json.dumps(work(("top", rows[:300])), sort_keys=True, ensure_ascii=False))
        mcx._worker_mc.close()
        mcx._worker_mc = None
    if outs[0] != outs[1]:
        print("MACHINERY-ERROR property=C03: determinism gate failed")
        return 2
    run.sample({"row": "a ≤ b + k", "doc": terms.doc(row(*render([("x", "a"), ("o", "≤"), ("x", "b"), ("o", "+"), ("x", "k")])))})
    run.sample({"row": "( a + 2 ) ! − k", "embedding": "superscript"})
    fp = fence_pairs()
    run.count("fence_pairs", len(fp))
    for where in ("top", "radicand", "numerator"):
        for i in range(0, len(fp), 12):
            jobs.append(("FENCES", where, fp[i:i + 12]))
    sr = scripted_rows()
    run.count("scripted_fence_rows_per_embedding", len(sr))
    for where in (EMBED if tier == "thorough" else ("top", "radicand", "fenced-arg")):
        jobs.append(("SCRIPTED", where, sr))
    lr = letter_rows(tier)
    run.count("element_letter_rows_per_embedding", len(lr))
    for where in LETTER_EMBED:
        for i in range(0, len(lr), 600):
            jobs.append(("LETTERS", where, lr[i:i + 600]))
    for viol, counts, nontriv in mcx.pmap(_dispatch, jobs):
        run.merge_violations(viol)
        run.merge_counts(counts)
        for h in nontriv:
            run.nontriv(h)
    return run.finish(
        rule=f"dictionary of {len(d)} operators read from src/operator-info.in. Rows: a op1 b op2 k for " + ("every infix operator" if tier == "thorough" else "every 4th infix operator") +
             " against one representative per (forms, priorities) class and all representative pairs; every prefix and postfix operator alone and against infix representatives; "
             "triples over " + ("all" if tier == "thorough" else "every 3rd") + f" infix representatives; prefix/postfix/infix mixes; every row of <= {5 if tier == 'quick' else 6} tokens over a 12-symbol core "
             "(operands, + − × = , ! ( ) - and unbalanced fences); parenthesised rows; 7 fence templates x ( ) [ ] { } with each closing fence as the base of msub/msup/msubsup/mmultiscripts (invariants only); function application and implied multiplication next to every infix class and every operator binding tighter than application (invariants only); a sample of these re-embedded in 6 two-dimensional positions; rows over identifiers that look like element symbols (10 operand sets x all pairs / triples of bond-like operators x 8 embeddings), which unless the result is marked as chemistry must be bracketed exactly like the same row over a b k n. Exact comparison for rows whose "
             "assignment of dictionary forms is unique; structural invariants on every row of every output. distinct_nontrivial = distinct rows of the exact class compared",
        assumptions=["associativity among different operators of equal priority is not given by the dictionary and is not compared",
                     "rows where a prefix priority ties with an infix/postfix priority, fence/ambiguous entries, pseudo-script characters and explicitly written invisible operators (which carry the function-application / trig-argument / mixed-number heuristics) are outside the exact class (invariants only)",
                     "the reference reads the same dictionary file, so a consistent edit of a priority is by definition not a violation of this property"],
        confirm=confirm)
