"""C15 — every shipped language, style and braille code loads and works.
Space: the complete configuration lattice read from Rules/ (languages and regional variants x styles x
verbosities; braille codes), regional and unknown-language fallbacks, each in a fresh session AND in one
session that walks through all of them; corpus = spine terms of G to depth 2 + trigger terms + characters
that live only in unicode-full.yaml.  Oracle: every preference is accepted; speech, overview, braille and a
navigation walk return Ok; fallbacks equal the language they fall back to; the walking session equals the
fresh sessions.  The fired-rule hook reports which rules of which file the corpus exercised."""
import json, os, re
from common import Run, is_ok, is_err, is_panic, val, short, norm_ids
import terms, mcx, lattice, canon_run, vis
from props import c05

WALK = ["ZoomIn", "MoveNext", "ReadCurrent", "DescribeCurrent", "ZoomOut"]
FULL_ONLY = ["⊕", "ℵ", "≅", "∰", "⊗", "⋈", "∯"]


def corpus(tier):
    out = []
    for sh in terms.spine_shapes(2 if tier == "thorough" else 1):
        out.append((terms.shape_name(sh), terms.build(sh, terms.Filler("mixed"))))
    if tier == "quick":
        from props import c04
        for sh in terms.spine_shapes(2, c04.CORE12):
            if sh[2] is not None:
                out.append((terms.shape_name(sh), terms.build(sh, terms.Filler("mixed"))))
    for name, t in canon_run.special_terms():
        out.append(("special:" + name, t))
    for c in FULL_ONLY:
        out.append((f"fullchar:{c}", terms.row(terms.mi("a"), terms.mo(c), terms.mi("b"))))
    return out


def case_ops(t):
    return [["mathml", terms.doc(t)], ["speech"], ["overview"], ["braille", ""]] + [["nav", c] for c in WALK]


NAMES = ["set_mathml", "speech", "overview", "braille"] + ["nav:" + c for c in WALK]


def config_setup(lang, style, verb, code):
    return [["pref", "Language", lang], ["pref", "SpeechStyle", style], ["pref", "Verbosity", verb], ["pref", "BrailleCode", code]]


def work(item):
    """fresh session for one configuration"""
    lang, style, verb, code, cases, trace = item
    mc = mcx.worker_mc()
    report = True
    if trace == "fallback":
        # the language tag also selects the locale's decimal mark (es-mx '.', es ','); pin it so that only the rule files are compared,
        # and leave getter failures to the run of the configuration itself
        trace, report = False, False
    setup = [["rules_dir", mcx.RULES], ["pref", "TTS", "none"], ["pref", "DecimalSeparator", "."] if not report else ["nop"]] + config_setup(lang, style, verb, code) + ([["trace", True]] if trace else [])
    ops = [case_ops(t) for _, t in cases]
    if trace:
        ops.append([["taketrace"]])
    sres, res = mc.run_cases(setup, ops)
    cfg = f"{lang}/{style}/{verb}/{code}" + ("" if report else "#fb")
    viol, counts, nontriv = [], {"evaluations": 0, "skipped_panics": 0, "rejected": 0}, []
    fired = []
    if trace:
        tr = res.pop()
        fired = val(tr[0]) or []
    for nm, r in zip(["set_rules_dir", "TTS", "DecimalSeparator", "Language", "SpeechStyle", "Verbosity", "BrailleCode"], sres):
        if not is_ok(r):
            viol.append((f"C15|preference-rejected|{nm}|{lang}|{style}|{code}", f"[{cfg}] {nm} was not accepted: {short(r, 200)}", {"kind": "fresh", "config": [lang, style, verb, code], "label": None, "doc": None}))
    obs = {}
    for (label, t), r in zip(cases, res):
        counts["evaluations"] += 1
        if is_panic(r[0]):
            counts["skipped_panics"] += 1
            continue
        if not is_ok(r[0]):
            counts["rejected"] += 1
            continue
        replay = {"kind": "fresh", "config": [lang, style, verb, code], "label": label, "doc": terms.doc(t)}
        obs[label] = [norm_ids(x[:2]) for x in r]
        visible = bool(vis.N(vis.vis(t), True))
        for nm, x in zip(NAMES[1:], r[1:]):
            if is_panic(x):
                counts["skipped_panics"] += 1
                continue
            if not report or (nm.startswith("nav:") and not visible):
                continue                     # (an expression without visible content has nothing to navigate)
            if not is_ok(x):
                ec = c05.error_class(x)
                who = code if nm == "braille" else (lang if nm.startswith("nav:") else f"{lang}|{style}")
                # keyed by the construct as well: a getter that starts failing on OTHER expressions is a different finding
                viol.append((f"C15|{nm}-fails|{who}|{ec}|{canon_run.label_class(label)}", f"[{cfg}] {label}: {nm} failed: {ec}", replay))
            else:
                nontriv.append(hash((cfg, nm, norm_ids(val(x)) if isinstance(val(x), str) else "")))
    return viol, counts, nontriv, obs, fired, cfg


def work_walk(item):
    """one session that selects every configuration in turn; results must equal the fresh-session results"""
    order, cases, fresh = item          # order: list of (lang, style, verb, code); fresh: {cfg: {label: obs}}
    mc = mcx.worker_mc()
    setup = [["rules_dir", mcx.RULES], ["pref", "TTS", "none"]]
    ops = []
    for lang, style, verb, code in order:
        ops.append(config_setup(lang, style, verb, code) + [op for _, t in cases for op in case_ops(t)])
    _, res = mc.run_cases(setup, ops)
    viol, counts = [], {"evaluations": 0, "walk_comparisons": 0}
    n = len(case_ops(cases[0][1]))
    prev = None
    for (lang, style, verb, code), r in zip(order, res):
        cfg = f"{lang}/{style}/{verb}/{code}"
        r = r[4:]
        for k, (label, t) in enumerate(cases):
            chunk = [norm_ids(x[:2]) for x in r[k * n:(k + 1) * n]]
            want = fresh.get(cfg, {}).get(label)
            counts["evaluations"] += 1
            if want is None or any(x[0] in ("p", "x") for x in chunk):
                continue
            counts["walk_comparisons"] += 1
            for nm, a, b_ in zip(NAMES, chunk, want):
                if a != b_:
                    viol.append((f"C15|walk-differs|{nm}|{lang}|{code}", f"[{cfg}] {label}: {nm} in a session that came from {prev} is {short(a, 120)} but {short(b_, 120)} in a fresh session",
                                 {"kind": "walk", "order": order, "label": label, "doc": terms.doc(t), "cases": [[l, terms.doc(x)] for l, x in cases]}))
                    break
        prev = cfg
    return viol, counts, [], None, [], None


# ---------------------------------------------------------------------------------------------
# definition-derived corpus: expressions that consult the named sets of each definitions.yaml, used to walk between every ordered pair of
# languages and of braille codes in one session (a set that survives a switch, or is not rebuilt, shows only on such inputs)

def def_members(path, per_name=3):
    """name -> a few members (first / middle / last) of every set, map and vector of one definitions.yaml"""
    doc = mcx.yaml2json(path)
    out = {}
    for entry in (doc[0] if doc else []):
        if not isinstance(entry, list):
            continue
        for kv in entry:
            name, v = kv["k"], kv["v"]
            if name == "include" or not isinstance(v, list) or not v:
                continue
            ms = [(x["k"] if isinstance(x, dict) else x) for x in v]
            ms = [m for m in ms if isinstance(m, str) and m and not m.startswith("//") and len(m) <= 10 and " " not in m]
            if not ms:
                continue
            pick = [ms[0], ms[len(ms) // 2], ms[-1]][:per_name]
            out[name] = list(dict.fromkeys(pick))
    return out


def def_terms(path):
    out = []
    for name, ms in def_members(path).items():
        for m in ms:
            if name.startswith("Numbers"):
                continue
            if m[0].isalnum():
                out.append((f"def:{name}:{m}:apply", terms.row(terms.mi(m), terms.mi("x"))))
                out.append((f"def:{name}:{m}:sub", terms.row(terms.el("msub", terms.mi(m), terms.mn("2")), terms.mi("x"))))
                out.append((f"def:{name}:{m}:unit", terms.row(terms.mn("3"), terms.T("mi", text=m, mathvariant="normal"))))
                if m.isalpha() and 2 <= len(m) <= 4:
                    out.append((f"def:{name}:{m}:letters", terms.row(*[terms.mi(ch) for ch in m])))
            else:
                out.append((f"def:{name}:{m}:infix", terms.row(terms.mi("a"), terms.mo(m), terms.mi("b"))))
                out.append((f"def:{name}:{m}:prefix", terms.row(terms.mo(m), terms.mi("A"), terms.mi("B"))))
                out.append((f"def:{name}:{m}:over", terms.el("mover", terms.mi("x"), terms.mo(m))))
                out.append((f"def:{name}:{m}:under", terms.el("munder", terms.mi("x"), terms.mo(m))))
    # the number vectors are consulted through ordinals and fractions
    for k in ("3", "12", "25", "100", "1000"):
        out.append((f"def:Numbers:{k}:root", terms.el("mroot", terms.mi("x"), terms.mn(k))))
        out.append((f"def:Numbers:{k}:frac", terms.el("mfrac", terms.mn("7"), terms.mn(k))))
        out.append((f"def:Numbers:{k}:power", terms.el("msup", terms.mi("x"), terms.mn(k))))
    return out


DEF_OPS = lambda t: [["mathml", terms.doc(t)], ["speech"], ["braille", ""]]


def def_domains():
    """domain -> (preferences selecting it, its own definition-derived terms)"""
    shared = def_terms(os.path.join(mcx.RULES, "definitions.yaml"))
    doms = {}
    for lang in lattice.languages():
        if "-" in lang:
            continue
        pth = os.path.join(mcx.RULES, "Languages", lang, "definitions.yaml")
        st = lattice.styles(lang)[0]
        doms["L:" + lang] = ([["pref", "Language", lang], ["pref", "SpeechStyle", st], ["pref", "BrailleCode", "Nemeth"]], def_terms(pth))
    for code in lattice.braille_codes():
        pth = os.path.join(mcx.RULES, "Braille", code, "definitions.yaml")
        if os.path.exists(pth):
            doms["B:" + code] = ([["pref", "Language", "en"], ["pref", "SpeechStyle", "ClearSpeak"], ["pref", "BrailleCode", code]], def_terms(pth))
    return shared, doms


def _dedupe(cases):
    seen, out = set(), []
    for label, t in cases:
        d = terms.doc(t)
        if d not in seen:
            seen.add(d)
            out.append((label, t))
    return out


def work_defpair(item):
    """one session: domain A over its own terms, switch to B, B over A's + B's + the shared terms; compared with B in a fresh session"""
    a, b_, shared, doms = item
    mc = mcx.worker_mc()
    setup = [["rules_dir", mcx.RULES], ["pref", "TTS", "none"], ["pref", "Verbosity", "Medium"]]
    pa, ta = doms[a]
    pb, tb = doms[b_]
    cases = _dedupe(ta + tb + shared)
    warm = _dedupe(ta + shared[:40])
    walk = pa + [op for _, t in warm for op in DEF_OPS(t)] + pb + [op for _, t in cases for op in DEF_OPS(t)]
    fresh = pb + [op for _, t in cases for op in DEF_OPS(t)]
    _, res = mc.run_cases(setup, [walk, fresh], fresh=True, keep_going=True)
    off = len(pa) + 3 * len(warm) + len(pb)
    w, f = res[0][off:], res[1][len(pb):]
    viol, counts = [], {"evaluations": 0, "defpair_comparisons": 0}
    for k, (label, t) in enumerate(cases):
        counts["evaluations"] += 1
        x, y = [norm_ids(v[:2]) for v in w[3 * k:3 * k + 3]], [norm_ids(v[:2]) for v in f[3 * k:3 * k + 3]]
        if len(x) < 3 or len(y) < 3 or any(v[0] in ("p", "x", "abort", "timeout") for v in x + y):
            continue
        counts["defpair_comparisons"] += 1
        for nm, p, q in zip(("set_mathml", "speech", "braille"), x, y):
            if p != q:
                viol.append((f"C15|walk-differs|{nm}|{b_}|after:{a.split(':')[0]}", f"[{b_} after {a}] {label}: {nm} is {short(p, 110)} but {short(q, 110)} when {b_} is selected in a fresh session",
                             {"kind": "defpair", "a": a, "b": b_, "label": label, "doc": terms.doc(t)}))
                break
    return viol, counts, [], None, [], None


# ---------------------------------------------------------------------------------------------
# navigation in every language: navigate.yaml is a translated copy per language, and where a command leads does not depend on the
# language - so every command of the navigation vocabulary, issued along one fixed script over a table, a formula with fraction, scripts
# and root, and a sum, must succeed where it succeeds in English and rest on the node it rests on in English

def _ids(t):
    for k, (_, n) in enumerate(t.walk()):
        n.attrs["id"] = f"n{k}"
    return t


def nav_exprs():
    from terms import mi, mn, mo, row, el
    cell = lambda x: el("mtd", x)
    matrix = row(mi("M"), mo("="), row(mo("("), el("mtable", el("mtr", cell(mi("a")), cell(mi("b"))), el("mtr", cell(mi("c")), cell(row(mi("d"), mo("+"), mn("1"))))), mo(")")))
    formula = row(el("msup", mi("x"), mn("2")), mo("+"), el("mfrac", mi("a"), row(mi("b"), mo("-"), mn("3"))), mo("-"), el("msqrt", el("msub", mi("y"), mn("1"))))
    total = row(mi("f"), mo("("), mi("x"), mo(")"), mo("="), el("munderover", mo("\u2211"), row(mi("i"), mo("="), mn("1")), mi("n")), mi("i"))
    return [("matrix", _ids(matrix)), ("formula", _ids(formula)), ("sum", _ids(total))]


NAV_SCRIPT = ["ZoomIn", "ZoomIn", "MoveNext", "MoveNext", "ZoomIn", "ZoomIn", "ZoomIn", "MoveCellNext", "MoveCellDown", "MoveCellPrevious", "MoveCellUp", "ReadCellCurrent", "MoveColumnEnd",
              "MoveColumnStart", "MoveLineEnd", "MoveLineStart", "MoveCellDown", "ZoomIn", "MoveCellUp", "WhereAmI", "WhereAmIAll", "ZoomOut", "MoveNext", "MovePrevious", "ZoomOutAll", "ZoomInAll",
              "MoveCellDown", "MoveCellNext", "MoveCellUp", "MoveCellPrevious", "MoveLastLocation", "DescribeCurrent", "DescribeNext", "DescribePrevious", "ReadNext", "ReadPrevious",
              "ReadCurrent", "ToggleZoomLockDown", "MoveNext", "ToggleZoomLockUp", "ToggleZoomLockUp", "MovePrevious", "ToggleSpeakMode", "MoveNext",
              "MoveEnd", "MoveStart", "MoveNext", "MoveNext", "ZoomIn", "MoveNext", "ZoomOut", "MovePrevious"]
NAV_MODES = ["Enhanced", "Simple", "Character"]
NAV_VERBS = ["Terse", "Medium", "Verbose"]


def navlang_observe(mc, lang, ename_, mode_, verbs):
    setup = [["rules_dir", mcx.RULES], ["pref", "TTS", "none"], ["pref", "Language", lang]]
    cases, meta = [], []
    for ename, t in nav_exprs():
        if ename != ename_:
            continue
        for mode in [mode_]:
            for nv in verbs:
                ops = [["pref", "NavMode", mode], ["pref", "NavVerbosity", nv], ["mathml", terms.doc(t)]]
                for c in NAV_SCRIPT:
                    ops += [["nav", c], ["navid"]]
                cases.append(ops)
                meta.append((ename, mode, nv))
    _, res = mc.run_cases(setup, cases, fresh=True)
    out = {}
    for m, r in zip(meta, res):
        steps = []
        for k in range(len(NAV_SCRIPT)):
            a, b_ = r[3 + 2 * k], r[4 + 2 * k]
            steps.append((a[0], bool(a[0] == "o" and str(val(a)).strip()), norm_ids(b_[:2]) if b_[0] == "o" else [b_[0]], short(a, 160)))
        out[m] = steps
    return out


_NAV_EN = {}


def val_err(step):
    try:
        return json.loads(step[3])[1]
    except Exception:
        return step[3]


def work_navlang(item):
    lang, ename_, mode_, verbs = item
    mc = mcx.worker_mc()
    rk = (ename_, mode_, tuple(verbs))
    if rk not in _NAV_EN:
        _NAV_EN[rk] = navlang_observe(mc, "en", ename_, mode_, verbs)
    ref = _NAV_EN[rk]
    got = ref if lang == "en" else navlang_observe(mc, lang, ename_, mode_, verbs)
    viol, counts, nontriv = [], {"evaluations": 0, "nav_language_steps": 0}, []
    for m, steps in got.items():
        ename, mode, nv = m
        toggled = False
        for k, (st, spoken, where, raw) in enumerate(steps):
            counts["evaluations"] += 1
            if k and NAV_SCRIPT[k - 1] == "ToggleSpeakMode":
                toggled = not toggled
            est, espoken, ewhere, eraw = ref[m][k]
            if est in ("p", "abort", "timeout") or st in ("p", "abort", "timeout"):
                break           # C08's business; what follows in this session is not comparable
            counts["nav_language_steps"] += 1
            nontriv.append(hash((lang, m, k, raw)))
            cmd = NAV_SCRIPT[k]
            replay = {"kind": "navlang", "lang": lang, "expr": ename, "mode": mode, "nav_verbosity": nv, "step": k, "command": cmd}
            what = None
            if st != "o":
                what = ("fails", f"fails with {raw}" + (f" (English: {eraw})" if lang != "en" else ""))
            elif est == "o" and espoken and not spoken:
                what = ("silent", f"says nothing although English says {eraw}")
            elif where != ewhere:
                what = ("lands-elsewhere", f"leaves the position at {where}, English at {ewhere}")
            if what:
                ec = re.sub(r"[^A-Za-z_ ]", "", str(val_err(steps[k])))[:40].strip() if what[0] == "fails" else ""
                viol.append((f"C15|nav-lang|{lang}|{cmd}|{what[0]}|{ec}|{'describing' if toggled else 'reading'}", f"[{lang}/{mode}/{nv}] {ename}: step {k} {cmd} {what[1]}", replay))
                if what[0] == "lands-elsewhere":
                    break       # later steps start from a different position
    return viol, counts, nontriv, None, [], None


def _dispatch(job):
    if job[0] == "N":
        return work_navlang(job[1:])
    if job[0] == "D":
        return work_defpair(job[1:])
    return work_walk(job[1:]) if job[0] == "W" else work(job[1:])


def rules_defined():
    """number of named rules per rule file (for the coverage report)"""
    out = {}
    for root, _, files in os.walk(mcx.RULES):
        if os.sep + "zz" in root:
            continue
        for f in files:
            if f.endswith(".yaml") and not f.startswith("unicode") and f not in ("prefs.yaml", "definitions.yaml"):
                p = os.path.join(root, f)
                n = sum(1 for line in open(p, encoding="utf-8") if re.match(r"\s*-?\s*name:\s*\S", line))
                out[os.path.relpath(p, mcx.RULES)] = n
    return out


def confirm(replay, verbose=False):
    mc = mcx.Mc()
    old = mcx._worker_mc
    mcx._worker_mc = mc
    try:
        if replay["kind"] == "navlang":
            _NAV_EN.clear()
            v = [x for x in work_navlang((replay["lang"], replay["expr"], replay["mode"], [replay["nav_verbosity"]]))[0] if x[2]["command"] == replay["command"]]
            if verbose:
                for k, w, _ in v:
                    print(" ", k, "—", w)
            return {k for k, _, _ in v}
        if replay["kind"] == "defpair":
            shared, doms = def_domains()
            v = work_defpair((replay["a"], replay["b"], shared, doms))[0]
            v = [x for x in v if x[2]["label"] == replay["label"]]
            if verbose:
                for k, w, _ in v:
                    print(" ", k, "—", w)
            return {k for k, _, _ in v}
        if replay["kind"] == "fallback":
            cases = [(replay["label"], terms.parse_xml(replay["doc"]).kids[0])]
            a = work((replay["fb"], replay["style"], "Medium", "Nemeth", cases, "fallback"))[3]
            b_ = work((replay["target"], replay["style"], "Medium", "Nemeth", cases, "fallback"))[3]
            v = []
            for label in a:
                if label in b_ and a[label] != b_[label]:
                    k = next(i for i, (x, y) in enumerate(zip(a[label], b_[label])) if x != y)
                    v.append((f"C15|fallback-differs|{replay['fb']}->{replay['target']}|{NAMES[k]}", f"{NAMES[k]}: {short(a[label][k], 150)} vs {short(b_[label][k], 150)}", None))
        elif replay["kind"] == "fresh":
            cases = [] if replay["doc"] is None else [(replay["label"], terms.parse_xml(replay["doc"]).kids[0])]
            v = work(tuple(replay["config"]) + (cases, False))[0]
        else:
            cases = [(l, terms.parse_xml(d).kids[0]) for l, d in replay["cases"]]     # the whole walk: what was loaded earlier matters
            fresh = {}
            for cfg in replay["order"]:
                o = work(tuple(cfg) + (cases, False))
                fresh[o[5]] = o[3]
            v = work_walk(([tuple(c) for c in replay["order"]], cases, fresh))[0]
    finally:
        mcx._worker_mc = old
        mc.close()
    if verbose:
        for k, w, _ in v:
            print(" ", k, "—", w)
    return {k for k, _, _ in v}


def configs():
    """the lattice: every speech configuration with the braille codes rotated through, every braille code at least
    once per language family, plus fallbacks"""
    codes = lattice.braille_codes()
    out = []
    i = 0
    for lang, style, verb in lattice.speech_configs():
        out.append((lang, style, verb, codes[i % len(codes)]))
        i += 1
    for code in codes:                       # every code also under English/ClearSpeak/Medium
        out.append(("en", "ClearSpeak", "Medium", code))
    return out


FALLBACKS = [("es-mx", "es"), ("en-us", "en"), ("sv-fi", "sv"), ("xx", "en"), ("de", "en"), ("zh-cn", "en"), ("en-gb-oed", "en-gb"),
             # the customary spelling of a language tag writes the region in capitals: it names the same shipped rules
             ("zh-TW", "zh-tw"), ("en-GB", "en-gb"), ("es-MX", "es"), ("sv-SE", "sv")]


def main(tier):
    run = Run("C15", tier, "exploration")
    corp = corpus(tier)
    run.count("terms", len(corp))
    cfgs = configs()
    run.count("configurations", len(cfgs))
    jobs = []
    for lang, style, verb, code in cfgs:
        jobs.append(("F", lang, style, verb, code, corp, True))
    for fb, target in FALLBACKS:
        for style in ("ClearSpeak", "SimpleSpeak"):
            jobs.append(("F", fb, style, "Medium", "Nemeth", corp, "fallback"))
            jobs.append(("F", target, style, "Medium", "Nemeth", corp, "fallback"))
    outs = []
    for _ in range(2):
        mcx._worker_mc = mcx.Mc()
        o = work(("vi", "SimpleSpeak", "Terse", "Vietnam", corp[:40], False))
        outs.append(json.dumps([o[0], o[1], o[3]], sort_keys=True, ensure_ascii=False))
        mcx._worker_mc.close()
        mcx._worker_mc = None
    if outs[0] != outs[1]:
        print("MACHINERY-ERROR property=C15: determinism gate failed")
        return 2
    fresh, fired_by_file = {}, {}
    for viol, counts, nontriv, obs, fired, cfg in mcx.pmap(_dispatch, jobs):
        run.merge_violations(viol)
        run.merge_counts(counts)
        for h in nontriv:
            run.nontriv(h)
        fresh[cfg] = obs
        for f in fired:
            parts = f.split("|")
            if len(parts) >= 4:
                fired_by_file.setdefault(parts[1].replace(mcx.RULES + "/", ""), set()).add((parts[2], parts[3]))
    # fallbacks: a regional variant equals its language, an unknown language equals English
    for fb, target in FALLBACKS:
        for style in ("ClearSpeak", "SimpleSpeak"):
            a, b_ = fresh.get(f"{fb}/{style}/Medium/Nemeth#fb"), fresh.get(f"{target}/{style}/Medium/Nemeth#fb")
            if not a or not b_:
                continue
            for label in a:
                run.count("fallback_comparisons")
                if label in b_ and a[label] != b_[label]:
                    k = next(i for i, (x, y) in enumerate(zip(a[label], b_[label])) if x != y)
                    run.violation(f"C15|fallback-differs|{fb}->{target}|{NAMES[k]}", f"Language={fb} ({style}) {label}: {NAMES[k]} is {short(a[label][k], 120)} but {short(b_[label][k], 120)} under {target}",
                                  {"kind": "fallback", "fb": fb, "target": target, "style": style, "label": label, "doc": terms.doc(dict(corp)[label])})
                    break
    # walking sessions: forwards and backwards through the lattice with a small corpus containing full-table characters
    small = [c for c in corp if c[0].startswith("fullchar:")] + corp[:6]
    order = [c for c in cfgs if c[2] == "Medium"] + [("xx", "ClearSpeak", "Medium", "Nemeth"), ("es-mx", "ClearSpeak", "Medium", "CMU")]
    for o in order[-2:]:
        mcx._worker_mc = mcx.Mc()
        r = work(o + (small, False))
        fresh[r[5]] = r[3]
        mcx._worker_mc.close()
        mcx._worker_mc = None
    nav_langs = list(lattice.languages())
    run.count("navigation_languages", len(nav_langs))
    run.count("navigation_script_steps", len(NAV_SCRIPT))
    verbs = NAV_VERBS if tier == "thorough" else ["Terse", "Verbose"]
    njobs = [("N", l, e, m, verbs) for e in ("matrix", "formula", "sum") for m in NAV_MODES for l in nav_langs]
    for viol, counts, nontriv, _, _, _ in mcx.pmap(_dispatch, njobs):
        run.merge_violations(viol)
        run.merge_counts(counts)
        for h in nontriv:
            run.nontriv(h)
    wjobs = [("W", order, small, fresh), ("W", order[::-1], small, fresh), ("W", order[1::2] + order[::2], small, fresh)]
    shared, doms = def_domains()
    run.count("definition_domains", len(doms))
    run.count("definition_terms", len(shared) + sum(len(v[1]) for v in doms.values()))
    for a in doms:
        for b_ in doms:
            if a != b_ and (a[0] == b_[0] or tier == "thorough"):      # quick: language x language and code x code; thorough: mixed pairs too
                wjobs.append(("D", a, b_, shared, doms))
    for viol, counts, _, _, _, _ in mcx.pmap(_dispatch, wjobs):
        run.merge_violations(viol)
        run.merge_counts(counts)
    defined = rules_defined()
    cov = {f: {"rules_fired": len(fired_by_file.get(f, ())), "rules_defined": n} for f, n in sorted(defined.items())}
    never = sorted(f for f, c in cov.items() if c["rules_fired"] == 0 and c["rules_defined"] > 0)
    run.sample({"configuration": "sv/SimpleSpeak/Verbose/Swedish", "doc": terms.doc(corp[17][1]), "calls": NAMES})
    run.sample({"walk": [list(o) for o in order[:4]] + ["…"], "corpus": [c[0] for c in small]})
    return run.finish(
        rule="every (language|language-region) x style x verbosity present under Rules/Languages (45) with the 8 braille codes rotated through, every code under "
             "English as well, 7 fallback tags x 2 styles; each in a fresh session over the corpus (spine terms of G, trigger terms, 7 characters defined only in "
             "unicode-full.yaml) with speech, overview, braille and a 5-command navigation walk; then three single sessions that walk through all Medium "
             "configurations (forwards, backwards, interleaved) and must reproduce the fresh-session results; and for every ordered pair of languages and of braille codes "
             "(thorough: mixed pairs too) one session A -> B over a corpus DERIVED FROM the definitions.yaml files (three members of every named set/map in 4 token contexts, "
             "ordinal/fraction numbers), compared with B in a fresh session. distinct_nontrivial = distinct (configuration, getter, result) triples",
        coverage_extra={"rule_coverage": cov, "rule_files_never_exercised": never},
        assumptions=["the directory Languages/zz is a test fixture that build.rs does not ship",
                     "WhereAmI at the root and Exit legitimately return an error and are not part of the walk"],
        confirm=confirm)
