"""C07 — braille output uses only the target alphabet.
Space: (A) every character the code's unicode.yaml / unicode-full.yaml defines (read with yaml-rust) in
three token contexts, plus every mathvariant x letter class; (B) terms of G (depth <= 2, trigger terms)
with author ids on every element x highlight style x navigation node id in {"", every author id, the
root id, an unknown id}, followed by position queries (in range, out of range) and a repeated request.
Oracle: cell codes — only U+2800..U+28FF, and no dots 7-8 when the style is Off or no/unknown node is
given; text codes — printable text without the internal markers; non-empty iff there is visible content."""
import json, os, re
from common import Run, is_ok, is_err, is_panic, val, short
import terms, mcx, vis, canon_run

CELL = ["Nemeth", "UEB", "CMU", "Vietnam"]
TEXT = ["LaTeX", "ASCIIMath"]
LANG = {"Nemeth": "en", "UEB": "en", "CMU": "es", "Vietnam": "vi", "LaTeX": "en", "ASCIIMath": "en"}
STYLES = ["Off", "FirstChar", "EndPoints", "All"]
MARKERS = "𝐖𝐰"
VARIANTS = ["normal", "bold", "italic", "bold-italic", "double-struck", "script", "bold-script", "fraktur", "bold-fraktur",
            "sans-serif", "bold-sans-serif", "sans-serif-italic", "sans-serif-bold-italic", "monospace"]


def table_chars(code):
    chars = []
    for fn in ("unicode.yaml", "unicode-full.yaml"):
        path = os.path.join(mcx.RULES, "Braille", code, fn)
        if not os.path.exists(path):
            continue
        doc = mcx.yaml2json(path)
        for entry in doc[0] if doc else []:
            if isinstance(entry, list):
                for kv in entry:
                    k = kv["k"]
                    if isinstance(k, str) and k:
                        if len(k) == 3 and k[1] == "-":
                            lo, hi = ord(k[0]), ord(k[2])
                            for o in range(lo, hi + 1):      # every member of a range: the table is finite
                                chars.append((fn, chr(o)))
                        elif k.lower().startswith("0x"):
                            try:
                                chars.append((fn, chr(int(k, 16))))
                            except ValueError:
                                pass
                        else:
                            chars.append((fn, k))
    seen, out = set(), []
    for fn, c in chars:
        if c not in seen and not any(0xE000 <= ord(x) <= 0xF8FF or ord(x) >= 0xF0000 for x in c) and not any(x in MARKERS for x in c):
            seen.add(c)
            out.append((fn, c))
    return out


_DEFINED = {}


def defined(code):
    if code not in _DEFINED:
        _DEFINED[code] = {c for _, c in table_chars(code) if len(c) == 1}
    return _DEFINED[code]


_CONTENT78 = {}


def content78(code):
    """dots-7-8 cells that the code's own rule file writes as *content* (Nemeth's line separator
    U+28CD, 't: "W\u28cd"'): they are not highlight."""
    if code not in _CONTENT78:
        cells = set()
        d = os.path.join(mcx.RULES, "Braille", code)
        for fn in os.listdir(d):
            if fn.endswith(".yaml"):
                for c in open(os.path.join(d, fn), encoding="utf-8").read():
                    if 0x2800 <= ord(c) <= 0x28FF and (ord(c) - 0x2800) & 0xC0:
                        cells.add(c)
        _CONTENT78[code] = cells
    return _CONTENT78[code]


def bad_cells(s, allow78, code=None, source="", base=None):
    """-> (class, detail) or None for a cell-code result.  A non-braille character is documented
    pass-through (outside the guarantee) iff the code defines no braille for it and it occurs in the
    expression itself (the highlighter may have or-ed 0xC0 into it)."""
    for i, c in enumerate(s):
        o = ord(c)
        if not (0x2800 <= o <= 0x28FF):
            if code is not None and c in source and c not in defined(code):
                continue
            # ... or is such a character with the highlight bits or-ed into its code point (U+2AAF -> U+2AEF)
            if code is not None and allow78 and any((ord(s_) | 0xC0) == o and s_ not in defined(code) and not (0x2800 <= ord(s_) <= 0x28FF) for s_ in source):
                continue
            # the same position of the unhighlighted braille holds a passed-through character
            if code is not None and base is not None and len(base) == len(s) and not (0x2800 <= ord(base[i]) <= 0x28FF) \
                    and base[i] in source and base[i] not in defined(code):
                continue
            return ("non-braille", f"{c!r} U+{o:04X}")
    if not allow78:
        for c in s:
            if 0x2800 <= ord(c) <= 0x28FF and (ord(c) - 0x2800) & 0xC0 and not (code and c in content78(code)):
                return ("dots78", f"{c!r}")
    return None


def bad_text(s, doc_):
    for c in s:
        o = ord(c)
        if 0xE000 <= o <= 0xF8FF or o >= 0xF0000:
            return ("private-use", f"U+{o:04X}")
        if c in MARKERS and c not in doc_:
            return ("internal-marker", f"{c!r}")
        if o < 0x20 or 0x7F <= o < 0xA0:
            return ("control-char", f"U+{o:04X}")
        if 0x2800 < o <= 0x28FF:
            return ("braille-cell-in-text", f"{c!r}")
    return None


def char_cases(code):
    out = []
    for fn, c in table_chars(code):
        for kind in ("mi", "mo", "mtext"):
            out.append((f"char:{fn}:{kind}", terms.row(terms.mi("x"), terms.T(kind, text=c), terms.mi("y")), c))
        if len(c) == 1:
            out.append((f"char:{fn}:alone", terms.T("mo" if not c.isalnum() else "mi", text=c), c))
    for mv in VARIANTS:
        for kind, txt in (("mi", "A"), ("mi", "b"), ("mi", "Γ"), ("mi", "α"), ("mn", "27"), ("mi", "AB"), ("mtext", "Word a"), ("mo", "+")):
            out.append((f"variant:{mv}:{kind}", terms.row(terms.mi("x"), terms.mo("+"), terms.T(kind, text=txt, mathvariant=mv)), txt))
    return out


NUMBER_TEXTS = ["1,234.5", "1.234,5", "1 234", "1\u00a0234", "1\u202f234", "1'000", "0x1F", "#1F", "1e-5", "1E5", "12%", "−3", "-3", "+3", "1/2", ".5", "5.", "1.2.3",
                "007", "1:30", "3!", "2nd", "1st", "x1", "10a", "IV", "xii", "½", "²", "1½", "∞", "1…", "1_000"]


def token_cases(code):
    """tokens of more than one character: every ASCII letter (either case) and some Greek ones mixed with digits in the ways numbers with
    letters are written (hexadecimal, units, ordinals, variables with digits), and number spellings with signs, marks and separators -
    the rules take such tokens apart character by character, through intermediate private-use characters of their own"""
    out = []
    letters = [chr(o) for o in range(ord("a"), ord("z") + 1)] + [chr(o) for o in range(ord("A"), ord("Z") + 1)] + ["α", "Γ", "π"]
    for L in letters:
        cl = "U" if L.isupper() else "l"
        cl = cl if L.isascii() else "g" + cl
        for pat, txt in ((f"d{cl}", f"1{L}"), (f"{cl}d", f"{L}1"), (f"d{cl}d", f"3{L}7"), (f"dd{cl}{cl}", f"20{L}{L}"), (f"{cl}{cl}", f"{L}{L}"), (f"d{cl}x", f"4{L}b")):
            for kind in ("mn", "mtext", "mi"):
                out.append((f"token:{pat}:{kind}", terms.row(terms.mi("y"), terms.mo("="), terms.T(kind, text=txt)), txt))
    for txt in NUMBER_TEXTS:
        for kind in ("mn", "mtext"):
            out.append((f"token:number:{kind}", terms.row(terms.mi("y"), terms.mo("="), terms.T(kind, text=txt)), txt))
    return out


def undefined_cases(code):
    """characters that SOME braille code or the English speech tables define but this code does not: they are passed through by design, so
    the only claim is the statement's last one - the result is not empty"""
    from props import c05
    univ = set()
    for other in CELL + TEXT:
        univ |= defined(other)
    univ |= {c for _, c in c05.table_chars("en") if len(c) == 1}
    mine = defined(code)
    out = []
    for c in sorted(univ - mine):
        if c.isspace() or not c.isprintable() or 0x2061 <= ord(c) <= 0x2064:
            continue
        out.append(("undefined-char:alone", terms.T("mo" if not c.isalnum() else "mi", text=c), c))
    return out


def work_chars(item):
    code, cases = item
    mc = mcx.worker_mc()
    setup = [["rules_dir", mcx.RULES], ["pref", "Language", LANG[code]], ["pref", "BrailleCode", code], ["pref", "BrailleNavHighlight", "Off"]]
    _, res = mc.run_cases(setup, [[["mathml", terms.doc(t)], ["braille", ""]] for _, t, _ in cases])
    viol, counts, nontriv = [], {"evaluations": 0, "skipped_panics": 0, "rejected": 0, "braille_errors": 0}, []
    for (label, t, c), r in zip(cases, res):
        counts["evaluations"] += 1
        if is_panic(r[0]) or is_panic(r[1]):
            counts["skipped_panics"] += 1
            continue
        if not is_ok(r[0]):
            counts["rejected"] += 1
            continue
        if not is_ok(r[1]):
            counts["braille_errors"] += 1       # C15's business
            continue
        b = val(r[1])
        nontriv.append(hash((code, b)))
        d = terms.doc(t)
        try:
            source = "".join(vis.vis(terms.parse_xml(val(r[0])))) + "".join(vis.vis(t))
        except Exception:
            source = d
        bad = bad_cells(b, False, code, source) if code in CELL else bad_text(b, d)
        lc = ":".join(label.split(":")[:3])
        replay = {"kind": "char", "code": code, "label": label, "doc": d, "char": c}
        if bad:
            viol.append((f"C07|{code}|{bad[0]}|{lc}|{classify_char(c)}", f"[{code}] {label} ({c!r}): braille {b!r} contains {bad[0]} {bad[1]}", replay))
        if not b.strip() and vis.N(vis.vis(t), True):
            viol.append((f"C07|{code}|empty|{lc}", f"[{code}] {label} ({c!r}): braille is empty", replay))
    return viol, counts, nontriv


def classify_char(c):
    if len(c) > 1:
        return "multi-char-key"
    import unicodedata as ud
    return f"U+{ord(c):04X}"


_COVERED = {}


def covered_tags(code):
    """element names the code's rule file has a rule for (anything else falls to the 'unknown element' default)"""
    if code not in _COVERED:
        tags = set()
        d = os.path.join(mcx.RULES, "Braille", code)
        for fn in os.listdir(d):
            if fn.endswith("_Rules.yaml"):
                for line in open(os.path.join(d, fn), encoding="utf-8"):
                    m = re.match(r"\s*-?\s*tag:\s*(.*?)\s*(#.*)?$", line)
                    if m:
                        for tg in re.findall(r"[A-Za-z][\w-]*", m.group(1)):
                            tags.add(tg)
        _COVERED[code] = tags
    return _COVERED[code]


def uncovered(code, canon):
    return sorted({tg for tg in re.findall(r"<([A-Za-z][\w-]*)", canon)} - covered_tags(code) - {"math"})


def with_ids(t, label=""):
    """author ids n0, n1, ... on every element; labels 'oddid:<k>:<value>:...' give element k (counted from the end when negative) the id
    <value> instead - an EMPTY id or an id of blanks is an attribute the author wrote, and '' is also how a caller says 'no node'"""
    c = t.copy()
    ids = []
    nodes = list(c.walk())
    odd = None
    if label.startswith("oddid:"):
        _, k, value = label.split(":")[:3]
        odd = (int(k) % len(nodes), {"empty": "", "blank": " "}[value])
    for k, (path, n) in enumerate(nodes):
        if odd and k == odd[0]:
            n.attrs["id"] = odd[1]
            continue
        n.attrs["id"] = f"n{k}"
        ids.append(f"n{k}")
    return c, ids


def work_terms(item):
    code, style, cases = item
    mc = mcx.worker_mc()
    setup = [["rules_dir", mcx.RULES], ["pref", "Language", LANG[code]], ["pref", "BrailleCode", code], ["pref", "BrailleNavHighlight", style]]
    built = []
    ops = []
    for label, t in cases:
        ti, ids = with_ids(t, label)
        d = terms.doc(ti)
        o = [["mathml", d], ["navid"], ["braille", ""], ["braille", "no-such-id"], ["braille", {"r": 1, "k": 0}]]
        for i in ids[:14]:
            o.append(["braille", i])
        # position queries must not disturb later output (in range, far out of range), then ask again
        o += [["nodeat", 0], ["nodeat", 500], ["braille", ""], ["braille", ids[0]], ["braille", {"r": 1, "k": 0}]]
        built.append((label, ti, d, ids[:14]))
        ops.append(o)
    _, res = mc.run_cases(setup, ops)
    viol, counts, nontriv = [], {"evaluations": 0, "skipped_panics": 0, "rejected": 0, "braille_errors": 0}, []
    for (label, t, d, ids), r in zip(built, res):
        if is_panic(r[0]):
            counts["skipped_panics"] += 1
            continue
        if not is_ok(r[0]):
            counts["rejected"] += 1
            continue
        if uncovered(code, val(r[0])):
            counts["outside_rule_file_coverage"] = counts.get("outside_rule_file_coverage", 0) + 1
            continue       # the statement covers expressions built from elements the code's rule file covers
        canon_ids = set(re.findall(r"\sid='([^']*)'", val(r[0])))
        try:
            source = "".join(vis.vis(terms.parse_xml(val(r[0])))) + "".join(vis.vis(t))
        except Exception:
            source = d
        n = len(ids)
        names = [("no node", 2, False), ("unknown node", 3, False), ("root node", 4, True)] + [(f"node {i}", 5 + k, i in canon_ids) for k, i in enumerate(ids)] + \
                [("no node, after position queries", 5 + n + 2, False), ("node n0, after position queries", 5 + n + 3, ids[0] in canon_ids), ("root node, after position queries", 5 + n + 4, True)]
        lc = canon_run.label_class(label)
        if lc.startswith("test:"):
            lc = "test:" + t.tag          # the repository-test corpus: classed by the outermost element of the expression
        replay = {"kind": "term", "code": code, "style": style, "label": label, "doc": terms.doc(terms.parse_xml(d).kids[0])}
        visible = bool(vis.N(vis.vis(t), True))
        for what, i, may_highlight in names:
            counts["evaluations"] += 1
            x = r[i]
            if is_panic(x):
                counts["skipped_panics"] += 1
                continue
            if not is_ok(x):
                counts["braille_errors"] += 1
                continue
            b = val(x)
            nontriv.append(hash((code, style, b)))
            allow78 = may_highlight and style != "Off"
            bad = bad_cells(b, allow78, code, source, val(r[2]) if is_ok(r[2]) else None) if code in CELL else bad_text(b, d)
            w = re.sub(r"node n\d+", "node nK", what)
            if bad:
                # content leaks do not depend on highlighting: class them by what leaked; highlight cells by style and request
                key = f"C07|{code}|{bad[0]}|{style}|{w}|{lc}" if bad[0] == "dots78" else f"C07|{code}|{bad[0]}|{bad[1].split()[-1]}|{lc}"
                viol.append((key, f"[{code} highlight={style}] {label}, {what}: braille {b!r} contains {bad[0]} {bad[1]}", replay))
            if visible and not b.strip():
                viol.append((f"C07|{code}|empty|{lc}", f"[{code}] {label}, {what}: braille is empty although the expression has visible content", replay))
    return viol, counts, nontriv


def full_only(code):
    """characters the code defines only in unicode-full.yaml (the lazily loaded table)"""
    tc = table_chars(code)
    short_ = {c for fn, c in tc if fn == "unicode.yaml"}
    return sorted(c for fn, c in tc if fn == "unicode-full.yaml" and len(c) == 1 and c not in short_)


def walk_exprs(code, k=3, width=8):
    """k expressions, each a row of `width` lazily-loaded characters of the code, spread over its table"""
    fo = full_only(code)
    out = []
    for j in range(k):
        pick = [fo[(j * 37 + i * (len(fo) // width)) % len(fo)] for i in range(width)]
        parts = []
        for c in pick:
            parts += [terms.T("mi" if c.isalnum() else "mo", text=c), terms.mo("+")]
        out.append(terms.row(*parts[:-1]))
    return out


def walks():
    codes = CELL + TEXT
    ws = [[a, b] for a in codes for b in codes if a != b] + [[a, b, a] for a in codes for b in codes if a != b]
    ws += [codes[i:] + codes[:i] for i in range(len(codes))] + [list(reversed(codes[i:] + codes[:i])) for i in range(len(codes))]
    return ws


def work_walk(item):
    """one session per walk: switch BrailleCode, braille expressions made of lazily-loaded characters, switch again ...
    The output after every switch must be in the alphabet of the code selected *now*."""
    ws = item[0]
    mc = mcx.worker_mc()
    setup = [["rules_dir", mcx.RULES], ["pref", "BrailleNavHighlight", "Off"]]
    exprs = {code: walk_exprs(code) for code in CELL + TEXT}
    # fresh-session outputs: an expression that is not clean there is family (A)'s business, not this family's
    fresh_ops, fresh_ix = [], []
    for code in CELL + TEXT:
        for j, t in enumerate(exprs[code]):
            fresh_ops.append([["pref", "Language", LANG[code]], ["pref", "BrailleCode", code], ["mathml", terms.doc(t)], ["braille", ""]])
            fresh_ix.append((code, j))
    _, fres = mc.run_cases(setup, fresh_ops, fresh=True)
    clean = {}
    for (code, j), r in zip(fresh_ix, fres):
        ok = len(r) == 4 and is_ok(r[3])
        if ok:
            b = val(r[3])
            d = terms.doc(exprs[code][j])
            ok = not (bad_cells(b, False, code, "".join(vis.vis(exprs[code][j]))) if code in CELL else bad_text(b, d)) and b.strip()
        clean[(code, j)] = val(r[3]) if ok else None
    ops, meta = [], []
    for w in ws:
        o, m = [], []
        for code in w:
            o += [["pref", "Language", LANG[code]], ["pref", "BrailleCode", code]]
            for j, t in enumerate(exprs[code]):
                if clean[(code, j)] is not None:
                    o += [["mathml", terms.doc(t)], ["braille", ""]]
                    m.append((len(o) - 1, code, j))
        ops.append(o)
        meta.append(m)
    _, res = mc.run_cases(setup, ops, fresh=True)
    viol, counts, nontriv = [], {"evaluations": 0, "skipped_panics": 0, "rejected": 0, "braille_errors": 0}, []
    for w, m, r in zip(ws, meta, res):
        prev = None
        for i, code, j in m:
            counts["evaluations"] += 1
            if i >= len(r) or not is_ok(r[i]):
                counts["braille_errors"] += 1
                continue
            b = val(r[i])
            nontriv.append(hash((code, "walk", b)))
            t = exprs[code][j]
            bad = bad_cells(b, False, code, "".join(vis.vis(t))) if code in CELL else bad_text(b, terms.doc(t))
            came = [c for c in w[:w.index(code)]] if w.index(code) else []
            replay = {"kind": "walk", "walk": w}
            if bad:
                viol.append((f"C07|{code}|{bad[0]}|after-code-switch", f"[walk {'>'.join(w)}] braille under {code} for {terms.doc(t)} is {b!r}: contains {bad[0]} {bad[1]}", replay))
            elif not b.strip():
                viol.append((f"C07|{code}|empty|after-code-switch", f"[walk {'>'.join(w)}] braille under {code} for {terms.doc(t)} is empty", replay))
    return viol, counts, nontriv


def _dispatch(job):
    if job[0] == "W":
        return work_walk(job[1:])
    return work_chars(job[1:]) if job[0] == "C" else work_terms(job[1:])


def confirm(replay, verbose=False):
    mc = mcx.Mc()
    old = mcx._worker_mc
    mcx._worker_mc = mc
    try:
        t = terms.parse_xml(replay["doc"]).kids[0] if "doc" in replay else None
        if replay["kind"] == "walk":
            v, _, _ = work_walk(([replay["walk"]],))
        elif replay["kind"] == "char":
            v, _, _ = work_chars((replay["code"], [(replay["label"], t, replay["char"])]))
        else:
            for _, n in t.walk():
                n.attrs.pop("id", None)
            v, _, _ = work_terms((replay["code"], replay["style"], [(replay["label"], t)]))
    finally:
        mcx._worker_mc = old
        mc.close()
    if verbose:
        for k, w, _ in v:
            print(" ", k, "—", w)
    return {k for k, _, _ in v}


def term_corpus(tier):
    out = []
    for sh in terms.spine_shapes(2 if tier == "thorough" else 1):
        out.append((terms.shape_name(sh), terms.build(sh, terms.Filler("mixed"))))
    if tier == "quick":
        # depth 2 over the 12-construct core
        from props import c04
        for sh in terms.spine_shapes(2, c04.CORE12):
            if sh[2] is not None:
                out.append((terms.shape_name(sh), terms.build(sh, terms.Filler("mixed"))))
    for name, t in canon_run.special_terms():
        out.append(("special:" + name, t))
    tc = canon_run.test_cases(private_use=False)            # the inputs of the repository's own tests: they reach rules the grammar does not
    out += tc if tier == "thorough" else tc[::2]
    return out


def main(tier):
    run = Run("C07", tier, "exploration")
    jobs = []
    nchar = 0
    for code in CELL + TEXT:
        cc = char_cases(code) + undefined_cases(code) + token_cases(code)
        nchar += len(cc)
        for i in range(0, len(cc), 700):
            jobs.append(("C", code, cc[i:i + 700]))
    run.count("character_cases", nchar)
    corp = term_corpus(tier)
    # the depth-1 terms again with ONE element (the root, the first child, a middle one, the last leaf) carrying an empty or blank id
    odd = [(f"oddid:{k}:{v}:{terms.shape_name(sh)}", terms.build(sh, terms.Filler("mixed"))) for sh in terms.spine_shapes(1) for k in (0, 1, 2, -1) for v in ("empty", "blank")]
    run.count("odd_id_terms", len(odd))
    corp = corp + odd
    run.count("terms", len(corp))
    for code in CELL + TEXT:
        for style in STYLES if code in CELL else ["Off", "EndPoints"]:
            for i in range(0, len(corp), 150):
                jobs.append(("T", code, style, corp[i:i + 150]))
    ws = walks()
    run.count("code_walks", len(ws))
    for i in range(0, len(ws), 6):
        jobs.append(("W", ws[i:i + 6]))
    outs = []
    for _ in range(2):
        mcx._worker_mc = mcx.Mc()
        outs.append(json.dumps(work_terms(("UEB", "All", corp[:25])), sort_keys=True, ensure_ascii=False))
        mcx._worker_mc.close()
        mcx._worker_mc = None
    if outs[0] != outs[1]:
        print("MACHINERY-ERROR property=C07: determinism gate failed")
        return 2
    run.sample({"code": "CMU", "label": "char:unicode-full.yaml:mo", "doc": terms.doc(terms.row(terms.mi("x"), terms.mo("⊕"), terms.mi("y")))})
    run.sample({"code": "UEB", "style": "FirstChar", "label": corp[30][0], "doc": terms.doc(with_ids(corp[30][1])[0]),
                "calls": "braille('') braille(unknown) braille(root) braille(n0..n13) nodeat(0) nodeat(500) braille('') braille(n0) braille(root)"})
    for viol, counts, nontriv in mcx.pmap(_dispatch, jobs):
        run.merge_violations(viol)
        run.merge_counts(counts)
        for h in nontriv:
            run.nontriv(h)
    return run.finish(
        rule="(A) every key (every member of every range) of Braille/<code>/unicode.yaml and unicode-full.yaml in <mi>/<mo>/<mtext>/alone contexts and "
             "14 mathvariant values x 8 token classes, for Nemeth, UEB, CMU, Vietnam, LaTeX, ASCIIMath, plus every character another code or the English speech tables "
             "define but this code does not, alone (claim: not empty); every ASCII letter and three Greek ones mixed with digits in 6 patterns and 33 number spellings as <mn>/<mtext>/<mi> tokens; (B) spine terms of G (quick: depth 1 + depth 2 over a "
             "12-construct core; thorough: depth 2) and the trigger terms with author ids on every element x 4 highlight styles x node id in "
             "{'', unknown, root, each of the first 14 author ids}, then node-from-braille at 0 and 500 and the requests repeated; "
             "(C) code walks in ONE session: every ordered pair A>B, every A>B>A and 12 rotations through all six codes, three expressions of "
             "lazily-loaded (unicode-full-only) characters brailled after every switch. "
             "distinct_nontrivial = distinct (code, style, braille string) results",
        assumptions=["characters the selected code defines no braille for are outside the guarantee and outside the alphabet",
                     "the statement names six codes; Swedish and ASCIIMath-fi are exercised by C15 only",
                     "braille errors are left to C15, panics to C08"],
        confirm=confirm)
