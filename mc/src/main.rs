//! `mc` — the executor of the /verif model-checking framework.
//!
//! It links against the real MathCAT library built from /repo's working tree and does exactly one
//! thing: execute *op lists* against the public API (plus the cfg(mathcat_verif) hooks) and report
//! what every call returned.  It takes no decisions; enumeration and oracles live in /verif/engines.
//!
//! Protocol: one JSON object per line on stdin, one JSON object per line on stdout.
//!   {"id":N, "setup":[op..], "cases":[[op..]..], "fresh":bool, "keep_going":bool}
//!       A job.  A fresh OS thread (= a fresh MathCAT session, all state is thread_local) runs
//!       `setup` and then every case in order, in the same session.  With "fresh":true every case
//!       gets its own new session (setup is re-run for each).  After a panic the session thread is
//!       discarded; the remaining ops of that case are reported as ["x"] (unless keep_going) and
//!       the remaining cases continue in a new session (setup re-run).
//!   {"id":N, "sched":{"threads":[[op..]..], "schedule":[i..]}}
//!       Controlled scheduler: every op list runs in its own fresh OS thread; exactly one thread is
//!       released for exactly one API call at a time, in the order given by `schedule`.
//! Results: ["o", value] | ["e", first-line-of-error, full] | ["p", "file:line", message] | ["x"].
//!
//! Sub-commands:  mc serve (default) | mc yaml2json FILE | mc version
use serde_json::{json, Value};
use std::cell::RefCell;
use std::io::{BufRead, Write};
use std::panic;
use std::sync::mpsc;

use libmathcat::interface as mc;

thread_local! {
    static LAST_PANIC: RefCell<Option<(String, String)>> = const { RefCell::new(None) };
}

const STACK: usize = 8 * 1024 * 1024; // a main-thread sized stack, as a host application would have

fn install_panic_hook() {
    panic::set_hook(Box::new(|info| {
        let site = match info.location() {
            Some(l) => format!("{}:{}", l.file(), l.line()),
            None => "?".to_string(),
        };
        let msg = if let Some(s) = info.payload().downcast_ref::<&str>() {
            s.to_string()
        } else if let Some(s) = info.payload().downcast_ref::<String>() {
            s.clone()
        } else {
            "?".to_string()
        };
        LAST_PANIC.with(|p| *p.borrow_mut() = Some((site, msg)));
    }));
}

fn s(v: &Value, i: usize) -> String {
    v.get(i).and_then(|x| x.as_str()).unwrap_or("").to_string()
}
fn u(v: &Value, i: usize) -> usize {
    match v.get(i) {
        Some(Value::Number(n)) => {
            if let Some(x) = n.as_u64() {
                x as usize
            } else {
                usize::MAX
            }
        }
        Some(Value::String(t)) if t == "MAX" => usize::MAX,
        _ => 0,
    }
}
fn b(v: &Value, i: usize) -> bool {
    v.get(i).and_then(|x| x.as_bool()).unwrap_or(false)
}

fn ok<T: Into<Value>>(r: libmathcat::errors::Result<T>) -> Value {
    match r {
        Ok(v) => json!(["o", v.into()]),
        Err(e) => {
            let full = mc::errors_to_string(&e);
            let first = full.lines().next().unwrap_or("").to_string();
            json!(["e", first, full])
        }
    }
}

fn io_res(r: std::io::Result<()>) -> Value {
    match r {
        Ok(()) => json!(["o", null]),
        Err(e) => json!(["e", e.to_string(), e.to_string()]),
    }
}

fn copy_tree(src: &std::path::Path, dst: &std::path::Path) -> std::io::Result<()> {
    std::fs::create_dir_all(dst)?;
    for entry in std::fs::read_dir(src)? {
        let entry = entry?;
        let p = entry.path();
        let d = dst.join(entry.file_name());
        if p.is_dir() {
            copy_tree(&p, &d)?;
        } else {
            std::fs::copy(&p, &d)?;
        }
    }
    Ok(())
}

fn set_mtime(path: &std::path::Path, secs: u64) -> std::io::Result<()> {
    let t = std::time::UNIX_EPOCH + std::time::Duration::from_secs(secs);
    if path.is_dir() {
        for entry in std::fs::read_dir(path)? {
            set_mtime(&entry?.path(), secs)?;
        }
        Ok(())
    } else {
        let f = std::fs::OpenOptions::new().write(true).open(path)?;
        f.set_modified(t)
    }
}

/// Execute one op against the library.  Never catches anything itself.
fn do_op(op: &Value) -> Value {
    let name = op.get(0).and_then(|x| x.as_str()).unwrap_or("");
    match name {
        "rules_dir" => ok(mc::set_rules_dir(s(op, 1)).map(|_| Value::Null)),
        "pref" => ok(mc::set_preference(s(op, 1), s(op, 2)).map(|_| Value::Null)),
        "getpref" => ok(mc::get_preference(s(op, 1))),
        "mathml" => ok(mc::set_mathml(s(op, 1))),
        // set_mathml(<text> with the first occurrence of <pattern> replaced by <replacement>): with a result reference as <text> this is the
        // "edit the returned MathML and set it again" flow of an editor, inside one session
        "mathml_sub" => ok(mc::set_mathml(s(op, 1).replacen(&s(op, 2), &s(op, 3), 1))),
        "speech" => ok(mc::get_spoken_text()),
        "overview" => ok(mc::get_overview_text()),
        "braille" => ok(mc::get_braille(s(op, 1))),
        "navbraille" => ok(mc::get_navigation_braille()),
        "nav" => ok(mc::do_navigate_command(s(op, 1))),
        "key" => ok(mc::do_navigate_keypress(u(op, 1), b(op, 2), b(op, 3), b(op, 4), b(op, 5))),
        "setnav" => ok(mc::set_navigation_node(s(op, 1), u(op, 2)).map(|_| Value::Null)),
        "navmml" => ok(mc::get_navigation_mathml().map(|(m, o)| json!([m, o]))),
        "navid" => ok(mc::get_navigation_mathml_id().map(|(m, o)| json!([m, o]))),
        "brpos" => ok(mc::get_braille_position().map(|(a, z)| json!([a, z]))),
        "nodeat" => ok(mc::get_navigation_node_from_braille_position(u(op, 1)).map(|(m, o)| json!([m, o]))),
        "version" => json!(["o", mc::get_version()]),
        // ---- hooks (cfg mathcat_verif) ----
        "navstate" => json!(["o", libmathcat::verif_hooks::verif_nav_state()]),
        "setnavstate" => json!(["o", libmathcat::verif_hooks::verif_set_nav_state(&s(op, 1))]),
        "trace" => {
            libmathcat::verif_hooks::verif_rule_trace(b(op, 1));
            json!(["o", null])
        }
        "taketrace" => json!(["o", libmathcat::verif_hooks::verif_take_rule_trace()]),
        // ---- environment ops (fault injection on a private rules copy; harness-owned clock) ----
        "fs_copytree" => io_res(copy_tree(std::path::Path::new(&s(op, 1)), std::path::Path::new(&s(op, 2)))),
        "fs_rmtree" => io_res(std::fs::remove_dir_all(s(op, 1))),
        "fs_write" => io_res(std::fs::write(s(op, 1), s(op, 2))),
        "fs_copy" => io_res(std::fs::copy(s(op, 1), s(op, 2)).map(|_| ())),
        "fs_delete" => io_res(std::fs::remove_file(s(op, 1))),
        "fs_rename" => io_res(std::fs::rename(s(op, 1), s(op, 2))),
        "fs_truncate" => {
            let r = (|| -> std::io::Result<()> {
                let f = std::fs::OpenOptions::new().write(true).open(s(op, 1))?;
                f.set_len(u(op, 2) as u64)
            })();
            io_res(r)
        }
        "fs_mtime" => io_res(set_mtime(std::path::Path::new(&s(op, 1)), u(op, 2) as u64)),
        "setenv" => {
            std::env::set_var(s(op, 1), s(op, 2));
            json!(["o", null])
        }
        "unsetenv" => {
            std::env::remove_var(s(op, 1));
            json!(["o", null])
        }
        "nop" => json!(["o", null]),
        // several calls as one scheduling step (session initialisation in the scheduler harness)
        "seq" => {
            let mut out = Vec::new();
            if let Some(a) = op.as_array() {
                for sub in &a[1..] {
                    out.push(do_op(sub));
                }
            }
            json!(["o", out])
        }
        "panic_test" => panic!("panic_test"),
        _ => json!(["e", format!("mc: unknown op {}", name), ""]),
    }
}

/// Execute one op; a panic becomes ["p", site, message].
fn guarded(op: &Value) -> Value {
    LAST_PANIC.with(|p| *p.borrow_mut() = None);
    let r = panic::catch_unwind(panic::AssertUnwindSafe(|| do_op(op)));
    match r {
        Ok(v) => v,
        Err(_) => {
            let (site, msg) = LAST_PANIC.with(|p| p.borrow_mut().take()).unwrap_or(("?".into(), "?".into()));
            json!(["p", site, msg])
        }
    }
}

/// An argument of the form {"r": i} / {"r": i, "k": j} is replaced by the value (or its j-th component)
/// that op #i of the same case returned, so that a case can feed what the library handed out (an id, an
/// offset) back into a later call.  If op #i did not return Ok the argument becomes "" (strings) / 0.
fn resolve_refs(op: &Value, out: &[Value]) -> Value {
    match op {
        Value::Array(a) => Value::Array(
            a.iter()
                .map(|x| match x {
                    Value::Object(o) if o.contains_key("r") => {
                        let i = o["r"].as_u64().unwrap_or(0) as usize;
                        let v = out.get(i).and_then(|r| if r[0] == "o" { r.get(1) } else { None });
                        let v = match (v, o.get("k")) {
                            (Some(v), Some(k)) => v.get(k.as_u64().unwrap_or(0) as usize).cloned(),
                            (Some(v), None) => Some(v.clone()),
                            _ => None,
                        };
                        v.unwrap_or(Value::Null)
                    }
                    _ => x.clone(),
                })
                .collect(),
        ),
        _ => op.clone(),
    }
}

/// Outcome of running part of a job in one session thread.
struct Part {
    setup: Vec<Value>,
    cases: Vec<Vec<Value>>, // results for cases[start..start+cases.len()]
    died: bool,             // the session ended with a panic
}

fn run_session(setup: Vec<Value>, cases: Vec<Vec<Value>>, keep_going: bool, max_cases: usize) -> Part {
    let handle = std::thread::Builder::new()
        .stack_size(STACK)
        .spawn(move || {
            let mut part = Part { setup: vec![], cases: vec![], died: false };
            for op in &setup {
                let r = guarded(op);
                let p = r[0] == "p";
                part.setup.push(r);
                if p {
                    part.died = true;
                    return part;
                }
            }
            for case in cases.iter().take(max_cases) {
                let mut out: Vec<Value> = Vec::with_capacity(case.len());
                let mut dead = false;
                for op in case {
                    if dead && !keep_going {
                        out.push(json!(["x"]));
                        continue;
                    }
                    let op = &resolve_refs(op, &out);
                    let r = guarded(op);
                    if r[0] == "p" {
                        dead = true;
                    }
                    out.push(r);
                }
                part.cases.push(out);
                if dead {
                    part.died = true;
                    return part;
                }
            }
            part
        })
        .expect("spawn session");
    match handle.join() {
        Ok(p) => p,
        Err(_) => Part { setup: vec![], cases: vec![], died: true },
    }
}

fn run_job(job: &Value) -> Value {
    let id = job["id"].clone();
    if let Some(sched) = job.get("sched") {
        return run_sched(id, sched);
    }
    let setup: Vec<Value> = job["setup"].as_array().cloned().unwrap_or_default();
    let cases: Vec<Vec<Value>> = job["cases"]
        .as_array()
        .map(|a| a.iter().map(|c| c.as_array().cloned().unwrap_or_default()).collect())
        .unwrap_or_default();
    let fresh = job["fresh"].as_bool().unwrap_or(false);
    let keep_going = job["keep_going"].as_bool().unwrap_or(false);
    let mut setup_res: Option<Vec<Value>> = None;
    let mut case_res: Vec<Vec<Value>> = Vec::with_capacity(cases.len());
    let mut restarts = 0usize;
    if cases.is_empty() {
        let part = run_session(setup.clone(), vec![], keep_going, 0);
        setup_res = Some(part.setup);
    }
    while case_res.len() < cases.len() {
        let rest: Vec<Vec<Value>> = cases[case_res.len()..].to_vec();
        let part = run_session(setup.clone(), rest, keep_going, if fresh { 1 } else { usize::MAX });
        if setup_res.is_none() {
            setup_res = Some(part.setup.clone());
        }
        if part.cases.is_empty() {
            // setup itself panicked (or nothing ran): report every remaining case as not run
            let n = cases.len() - case_res.len();
            for i in 0..n {
                let c = &cases[case_res.len() + i - i]; // shape only
                let _ = c;
            }
            while case_res.len() < cases.len() {
                let k = cases[case_res.len()].len();
                let mut v = vec![json!(["x"]); k];
                if k > 0 {
                    v[0] = json!(["x", "setup-panicked", part.setup.last().cloned().unwrap_or(Value::Null)]);
                }
                case_res.push(v);
            }
            break;
        }
        for c in part.cases {
            case_res.push(c);
        }
        if part.died {
            restarts += 1;
        }
    }
    json!({"id": id, "setup": setup_res.unwrap_or_default(), "cases": case_res, "restarts": restarts})
}

/// Controlled scheduler at API-call granularity.
fn run_sched(id: Value, sched: &Value) -> Value {
    let threads: Vec<Vec<Value>> = sched["threads"]
        .as_array()
        .map(|a| a.iter().map(|c| c.as_array().cloned().unwrap_or_default()).collect())
        .unwrap_or_default();
    let schedule: Vec<usize> = sched["schedule"]
        .as_array()
        .map(|a| a.iter().map(|x| x.as_u64().unwrap_or(0) as usize).collect())
        .unwrap_or_default();
    let n = threads.len();
    let mut go_tx = Vec::new();
    let (done_tx, done_rx) = mpsc::channel::<(usize, Value)>();
    let mut handles = Vec::new();
    for (ti, ops) in threads.iter().cloned().enumerate() {
        let (tx, rx) = mpsc::channel::<()>();
        go_tx.push(tx);
        let done = done_tx.clone();
        handles.push(
            std::thread::Builder::new()
                .stack_size(STACK)
                .spawn(move || {
                    for op in &ops {
                        if rx.recv().is_err() {
                            return;
                        }
                        let r = guarded(op);
                        let _ = done.send((ti, r));
                    }
                })
                .expect("spawn"),
        );
    }
    let mut results: Vec<Vec<Value>> = vec![vec![]; n];
    let mut error = Value::Null;
    for &ti in &schedule {
        if ti >= n || results[ti].len() >= threads[ti].len() {
            error = json!(format!("schedule names thread {} which has no op left", ti));
            break;
        }
        go_tx[ti].send(()).ok();
        match done_rx.recv() {
            Ok((tj, r)) => {
                if tj != ti {
                    error = json!("a thread other than the released one answered");
                    break;
                }
                results[tj].push(r);
            }
            Err(_) => {
                error = json!("worker vanished");
                break;
            }
        }
    }
    drop(go_tx);
    for h in handles {
        let _ = h.join();
    }
    json!({"id": id, "threads": results, "error": error})
}

fn yaml_to_json(y: &yaml_rust::Yaml) -> Value {
    use yaml_rust::Yaml;
    match y {
        Yaml::Real(s) => json!({"real": s}),
        Yaml::Integer(i) => json!(i),
        Yaml::String(s) => json!(s),
        Yaml::Boolean(b) => json!(b),
        Yaml::Array(a) => Value::Array(a.iter().map(yaml_to_json).collect()),
        Yaml::Hash(h) => {
            // keep order and allow non-string keys: list of [key, value]
            Value::Array(h.iter().map(|(k, v)| json!({"k": yaml_to_json(k), "v": yaml_to_json(v)})).collect())
        }
        Yaml::Alias(_) => json!({"alias": true}),
        Yaml::Null => Value::Null,
        Yaml::BadValue => json!({"bad": true}),
    }
}

fn main() {
    let args: Vec<String> = std::env::args().collect();
    let cmd = args.get(1).map(|s| s.as_str()).unwrap_or("serve");
    match cmd {
        "version" => {
            println!("mc executor; mathcat {}", mc::get_version());
        }
        "yaml2json" => {
            let text = std::fs::read_to_string(&args[2]).expect("read");
            match yaml_rust::YamlLoader::load_from_str(&text) {
                Ok(docs) => {
                    let v: Vec<Value> = docs.iter().map(yaml_to_json).collect();
                    println!("{}", Value::Array(v));
                }
                Err(e) => {
                    eprintln!("yaml error: {}", e);
                    std::process::exit(3);
                }
            }
        }
        _ => {
            install_panic_hook();
            let stdin = std::io::stdin();
            let stdout = std::io::stdout();
            for line in stdin.lock().lines() {
                let line = match line {
                    Ok(l) => l,
                    Err(_) => break,
                };
                if line.trim().is_empty() {
                    continue;
                }
                let job: Value = match serde_json::from_str(&line) {
                    Ok(j) => j,
                    Err(e) => {
                        let mut out = stdout.lock();
                        writeln!(out, "{}", json!({"id": null, "error": format!("bad job json: {}", e)})).ok();
                        out.flush().ok();
                        continue;
                    }
                };
                let res = run_job(&job);
                let mut out = stdout.lock();
                writeln!(out, "{}", res).ok();
                out.flush().ok();
            }
        }
    }
}
