#!/usr/bin/env python3
import json, sys, glob, os
pid = sys.argv[1]          # e.g. C01f
prop = pid[:3]
P = {json.loads(l)["id"]: json.loads(l) for l in open("/verif/properties.jsonl")}[prop]
taken = []
for m in sorted(glob.glob(f"/verif/seeded/{prop}-*/meta.json")):
    d = json.load(open(m))
    s = (d.get("summary") or "").strip().replace("\n", " ")
    taken.append("- " + s[:260] + ("…" if len(s) > 260 else ""))
wt = f"/tmp/mut/{pid}"; out = f"/tmp/mut/{pid}.out"
txt = f"""You are helping to evaluate a verification effort for the Rust library MathCAT (NSoiffer/MathCAT: MathML -> canonical MathML -> speech / braille / navigation, driven by YAML rule files under Rules/).

Your scratch git worktree of the repository is {wt} (a detached worktree; `target/` is pre-built, so `cargo test --offline` is incremental). Work ONLY inside {wt} and write your results to {out}/ (create it). Never touch /repo or /verif. There is no network: always pass --offline to cargo.

THE PROPERTY (this is the only specification you get):

  Title: {P['title']}
  Statement: {P['statement']}
  Holds: {P['quantifier']['text']}

YOUR TASK: produce ONE realistic change to the library (Rust sources under src/ and/or rule/table files under Rules/) that BREAKS this property, while
  (1) the crate still compiles, and
  (2) the repository's own test suite gives exactly the same results as before: run `cargo test --workspace --no-fail-fast --offline 2>&1 | grep -E "^test .* \\.\\.\\. (ok|FAILED)$" | sort > after.txt` in the worktree and compare with /tmp/mut/baseline.results (3249 ok, 118 pre-existing FAILED — the sets must be IDENTICAL; tests only work with the default in-tree target/ directory), and
  (3) you provide a demonstration: a new integration test file tests/demo_{pid}.rs (using the public API in libmathcat::interface: set_rules_dir, set_preference, set_mathml, get_spoken_text, get_braille, do_navigate_command, ... ; look at existing tests/ for how the rules dir is located) that PASSES on the unchanged tree and FAILS with your change, and whose assertions are a direct consequence of the property's statement (not of incidental wording).

The change should look like something a maintainer could plausibly commit by mistake (a refactoring slip, an "optimisation", a cache or guard that is slightly wrong, an off-by-one, a table/rule-file edit, two sites that each look fine alone), NOT a blatant sabotage, and it must need SOMETHING SPECIFIC to manifest — a particular multi-step sequence of API calls, an unusual-but-legal input shape, a particular preference combination or language/braille code, a fault at a particular point — not something ordinary use would expose at once. Prefer code paths and inputs that are off the beaten track. Read the code the property is about first and pick a place where the property is maintained by some non-obvious piece of logic.

The following mutations have ALREADY been made by others for this property — yours must be substantially different (different mechanism, different site, different kind of triggering input/history):
{chr(10).join(taken) if taken else '- (none)'}

Deliverables in {out}/:
  - patch.diff   : `git diff` of your change in the worktree (library change ONLY — not the demo test), must apply with `git apply` to a clean checkout
  - demo_{pid}.rs : the demonstration test file
  - meta.json    : {{"property": "{pid}", "summary": "<what was changed and why it breaks the property>", "needs_to_manifest": "<the specific input/sequence/configuration needed>", "files_changed": [...], "suite": "<ok/FAILED counts you observed and whether identical to baseline>", "remarks": "<anything odd you noticed about the UNCHANGED tree w.r.t. this property, e.g. inputs where it already fails>"}}
Before finishing: `git stash`-free check — verify the demo passes with the patch reverted and fails with it applied, and leave the worktree with your change reverted (`git checkout -- .`; keep tests/demo_{pid}.rs out of the tree, i.e. only in {out}/). Keep your final answer short (what you changed, how it manifests, the suite counts)."""
open(f"/tmp/mut/{pid}.prompt.txt", "w").write(txt)
print(len(txt))
